"""C16 — a failed parse applies exactly the preceding statements; errors say where."""
import gen_gin as G
import gen_stmts as S
import gindom
from gindom import to_driver  # noqa: F401

ID = 'C16'
DOMAIN = 'gin/stmts'
PROPS_FILES = ['Gin/Props/C16.lean']
ANCHOR_FILES = ['config.py', 'config_parser.py', 'utils.py']
RULE = ('a valid config of 2-10 statements (flat bindings, blocks, macros, imports - among them a module that registers a configurable the text then configures -, includes nested up to depth 2 in real '
        'temporary files) over 2-3 registered probes; one fault injected at a uniformly chosen statement position of the '
        'whole include tree, of a kind drawn from {bad value, missing value, unbalanced bracket, bad selector, missing "=", '
        'unknown parameter, unknown configurable, unknown reference, denylisted parameter, missing include, missing import, an import whose module registers a taken name, '
        'bad block member, a well-formed block whose k-th member cannot be applied, an ambiguous name as binding target or block header, tokenizer error at the first token, inconsistent dedent}; after the failed call the store, '
        'provenance, recorded imports, lock flag and active scope are observed, a second (valid) text is parsed, and the '
        'flattened prefix is parsed in a fresh interpreter for comparison. non-trivial = the fault is not at the first '
        'statement; distinct = canonical case')
TRUSTED_BASE = ['Lean 4.33 kernel', 'axioms ⊆ {propext, Classical.choice, Quot.sound}', 'JSON glue (Gin/Drv)',
                'harness gen_stmts.py (the generated text spells the generated statements) / gindom.py',
                'the tokenizer and the parser proper are outside this model (C02/C03); location chains are read from the message']
ASSUMPTIONS = ['statements are rendered one per line (layouts are C03\'s subject)',
               'syntax errors are compared by class family only (the property fixes locations for semantic errors)']
EXPLANATION = ('Lean theorems about applyStmts (failure stops the loop; the state is that of the prefix; nothing after the '
               'fault is looked at; lock/registry frame; location chain grows by one entry per include level) + differential '
               'run with real files + fresh-interpreter comparison of the flattened prefix.')

FAULTS = S.SYNTAX_FAULTS + ['unknown_param', 'unknown_cfg', 'unknown_ref', 'denylisted', 'bad_include', 'bad_import',
                            'bad_block_member', 'tok_error_first', 'bad_dedent', 'block_member_fails',
                            'block_member_fails', 'ambiguous_cfg', 'import_clash', 'import_raises']

_FAULT_REGMODS = {}   # modules written for an injected fault (reset per generated case)


def late_reg(rng, obj=90):
  late = dict(G.gen_late_register(rng, obj), cls=False)
  for plist in (late['sig']['pos'], late['sig']['kwonly']):
    for p in plist:
      if p[1] is None:
        p[1] = {'v': None}
  return late


def collect_regmods(specs, out=None):
  out = {} if out is None else out
  for sp in specs:
    if sp[0] == 'regimport':
      out[sp[1]] = [sp[2]]
    elif sp[0] == 'include':
      collect_regmods(sp[2], out)
  return out


def gen_specs(rng, regs, depth, counter):
  """A list of statement specs for one file."""
  known = [r['_selector'] for r in regs]
  specs = []
  for _ in range(rng.randint(1, 5 if depth == 0 else 3)):
    r = rng.random()
    reg = rng.choice(regs)
    prev = [sp for sp in specs if sp[0] == 'bind']
    if prev and rng.random() < 0.2:
      # the same parameter set again, to an equal value, by a later statement: that statement is its setter now
      specs.append(rng.choice(prev))
      continue
    cls = [n for n, k in G.param_classes(reg).items() if k == 'valid']
    scope = '/'.join(rng.choice([[], ['a'], ['a', 'b']]))
    if r < 0.45 and cls:
      specs.append(('bind', scope, reg['_selector'], rng.choice(cls), S.gen_raw(rng, known, [], w_ref=0.15)))
    elif r < 0.6 and cls:
      members = [(a, S.gen_raw(rng, known, [], w_ref=0.1)) for a in rng.sample(cls, min(len(cls), rng.randint(1, 3)))]
      specs.append(('block', scope, reg['_selector'], members))
    elif r < 0.72:
      specs.append(('macro', rng.choice(['m1', 'm2', 'a/b']), G.gen_value(rng, 1)))
    elif r < 0.82:
      if len(counter) == 1 and rng.random() < 0.4:
        # a module that registers a configurable when imported: later statements of the text may configure it
        counter.append(late_reg(rng))
        specs.append(('regimport', 'ginverif_regmod_%d' % rng.randint(0, 3), counter[1]))
        lcls = [n for n, k in G.param_classes(counter[1]).items() if k == 'valid']
        if lcls and rng.random() < 0.7:
          specs.append(('bind', scope, counter[1]['_selector'], rng.choice(lcls), G.gen_value(rng, 1)))
      else:
        specs.append(('import', rng.choice(S.KNOWN_MODULES)))
    elif depth < 2:
      counter[0] += 1
      name = f'inc{counter[0]}.gin'
      specs.append(('include', name, gen_specs(rng, regs, depth + 1, counter)))
    elif cls:
      specs.append(('bind', scope, reg['_selector'], rng.choice(cls), G.gen_value(rng, 1)))
  return specs


def count_positions(specs):
  n = 0
  for sp in specs:
    n += 1
    if sp[0] == 'include':
      n += count_positions(sp[2])
  return n


def render(rng, specs, regs, fault, files, flat):
  """Renders one file. `fault` = [position countdown, kind]; returns (text, stmts, hit).

  `flat` collects the flattened prefix (specs that take effect before the fault)."""
  b = S.Builder()
  hit = False
  known = [r['_selector'] for r in regs]
  for sp in specs:
    if fault is not None and fault[0] == 0 and not hit and not fault[2]:
      hit = True
      fault[2] = True
      kind = fault[1]
      withp = [r for r in regs if any(k == 'valid' for k in G.param_classes(r).values())]
      reg = rng.choice(withp or regs)
      cls = [n for n, k in G.param_classes(reg).items() if k == 'valid'] or ['x']
      key = reg['_selector'] + '.' + cls[0]
      if not withp and kind in ('bad_block_member', 'bad_dedent', 'unknown_ref'):
        kind = 'bad_value'
        fault[1] = kind
      if kind in S.SYNTAX_FAULTS:
        b.add(S.render_syntax_fault(rng, kind, key), {'k': 'syntax'})
      elif kind == 'unknown_param':
        regnk = [r for r in regs if not r['sig']['varkw']]
        reg2 = rng.choice(regnk) if regnk else None
        if reg2 is None:
          b.add('zz.q.x = 1', {'k': 'bind', 'scope': '', 'sel': 'zz.q', 'arg': 'x', 'val': 1})
        else:
          b.add(reg2['_selector'] + '.nope = 1', {'k': 'bind', 'scope': '', 'sel': reg2['_selector'], 'arg': 'nope', 'val': 1})
      elif kind == 'unknown_cfg':
        b.add('a/zz.q.x = 1', {'k': 'bind', 'scope': 'a', 'sel': 'zz.q', 'arg': 'x', 'val': 1})
      elif kind == 'unknown_ref':
        val = {'l': [1, {'rawref': [[], 'zz.q', rng.random() < 0.5]}]}
        b.add(key + ' = ' + S.raw_literal(val), {'k': 'bind', 'scope': '', 'sel': reg['_selector'], 'arg': cls[0], 'val': val})
      elif kind == 'denylisted':
        regd = [r for r in regs if r['deny']]
        if regd:
          rd = rng.choice(regd)
          b.add(rd['_selector'] + '.' + rd['deny'][0] + ' = 1',
                {'k': 'bind', 'scope': '', 'sel': rd['_selector'], 'arg': rd['deny'][0], 'val': 1})
        else:
          b.add('zz.q.x = 1', {'k': 'bind', 'scope': '', 'sel': 'zz.q', 'arg': 'x', 'val': 1})
      elif kind == 'bad_include':
        b.add("include 'missing_file_xyz.gin'", {'k': 'include', 'name': 'missing_file_xyz.gin', 'file': None})
      elif kind == 'bad_import':
        mod = rng.choice(S.MISSING_MODULES)
        b.add('import ' + mod, {'k': 'import', 'module': mod, 'found': False})
      elif kind == 'bad_block_member':
        # the whole block is parsed before anything of it is applied (mirrored; see D17)
        good = [(a, G.gen_value(rng, 1)) for a in cls[:rng.randint(0, min(2, len(cls)))]]
        header = reg['_selector'] + ':'
        b.add(header + ''.join('\n  ' + a + ' = ' + S.raw_literal(v) for a, v in good) + '\n  ' + rng.choice(['y 3', 'y = ', '= 3', 'y = )']),
              {'k': 'syntax'})
        fault.append(('block_prefix', reg['_selector'], good))
        if good:
          flat.append(('block', '', reg['_selector'], good))
      elif kind == 'block_member_fails':
        # a well-formed block whose k-th member cannot be applied: the members written before it took effect (in
        # written order), those after it did not
        regnk = [r for r in withp if not r['sig']['varkw']] or [r for r in regs if not r['sig']['varkw']]
        if not regnk:
          b.add('a/zz.q.x = 1', {'k': 'bind', 'scope': 'a', 'sel': 'zz.q', 'arg': 'x', 'val': 1})
        else:
          reg2 = rng.choice(regnk)
          cls2 = [n for n, k in G.param_classes(reg2).items() if k == 'valid']
          rng.shuffle(cls2)
          nb = rng.randint(0, min(2, len(cls2)))
          before = [(a, G.gen_value(rng, 1)) for a in cls2[:nb]]
          after = [(a, G.gen_value(rng, 1)) for a in cls2[nb:nb + rng.randint(0, 2)]] + [('nope2', 5)][:rng.randint(0, 1)]
          if before and rng.random() < 0.5:
            # a parameter set before the failing member and once more after it: the later one never takes effect
            after = after + [(before[rng.randrange(len(before))][0], {'s': 'set again after the failure'})]
          bad_arg = reg2['deny'][0] if (reg2['deny'] and rng.random() < 0.5) else 'nope'
          sc = rng.choice(['', 'a'])
          S.add_block(b, sc, reg2['_selector'], before + [(bad_arg, 1)] + after, rng)
          if before:
            flat.append(('block', sc, reg2['_selector'], before))
      elif kind == 'ambiguous_cfg':
        # a name that several registered configurables end with: a KeyError, located like any semantic error
        leaves = {}
        for r in regs:
          leaves.setdefault(r['_selector'].rsplit('.', 1)[-1], []).append(r)
        amb = [l for l, rs in leaves.items() if len(rs) > 1]
        if not amb:
          b.add('a/zz.q.x = 1', {'k': 'bind', 'scope': 'a', 'sel': 'zz.q', 'arg': 'x', 'val': 1})
        elif rng.random() < 0.5:
          b.add(amb[0] + '.x = 1', {'k': 'bind', 'scope': '', 'sel': amb[0], 'arg': 'x', 'val': 1})
        else:
          S.add_block(b, '', amb[0], [('x', 1)])
      elif kind == 'import_clash':
        # the imported module registers a different object under a name that is taken: the import statement fails
        # with a located ValueError and nothing of it stays
        tgt = rng.choice(regs)
        clash = dict(late_reg(rng, 95), name=tgt['name'], module=tgt['module'], _explicit_module=tgt['module'],
                     _name_arg=tgt['name'], _pymodule=tgt['module'], _selector=tgt['_selector'], _pyname='clash95',
                     _api='external')
        _FAULT_REGMODS['ginverif_regmod_clash'] = [clash]
        b.add('import ginverif_regmod_clash', {'k': 'import', 'module': 'ginverif_regmod_clash', 'found': True, 'regs': [clash]})
      elif kind == 'import_raises':
        # the body of the imported module raises an exception of a class of its own (constructor arguments that
        # `args` does not hold): still located, one entry per include level
        boom = dict(late_reg(rng, 96), listTypesOk=False, _raise_custom=True)
        _FAULT_REGMODS['ginverif_regmod_boom'] = [boom]
        b.add('import ginverif_regmod_boom', {'k': 'import', 'module': 'ginverif_regmod_boom', 'found': True, 'regs': [boom]})
      elif kind == 'tok_error_first':
        b.add(rng.choice(["'abc", '"unterminated', '$$$ = 1', '?']), {'k': 'syntax'})
      elif kind == 'bad_dedent':
        b.add(reg['_selector'] + ':\n    ' + cls[0] + ' = 1\n  ' + cls[0] + ' = 2', {'k': 'syntax'})
        fault.append(('dedent_prefix', reg['_selector'], [(cls[0], 1)]))
        flat.append(('block', '', reg['_selector'], [(cls[0], 1)]))
      break
    if fault is not None and not fault[2]:
      fault[0] -= 1
    if sp[0] == 'bind':
      S.add_binding(b, sp[1], sp[2], sp[3], sp[4], rng)
      flat.append(sp)
    elif sp[0] == 'macro':
      S.add_binding(b, '', sp[1], '', sp[2], rng)
      flat.append(sp)
    elif sp[0] == 'block':
      S.add_block(b, sp[1], sp[2], sp[3], rng)
      flat.append(sp)
    elif sp[0] == 'regimport':
      b.add('import ' + sp[1], {'k': 'import', 'module': sp[1], 'found': True, 'regs': [sp[2]]})
      flat.append(sp)
    elif sp[0] == 'import':
      b.add('import ' + sp[1], {'k': 'import', 'module': sp[1], 'found': True})
      flat.append(sp)
    elif sp[0] == 'import_missing':
      # only generated where skip_unknown is on: dropped, and absent from the imports the call reports
      b.add('import ' + sp[1], {'k': 'import', 'module': sp[1], 'found': False})
    elif sp[0] == 'include':
      text, stmts, inner_hit = render(rng, sp[2], regs, fault, files, flat)
      files[sp[1]] = text
      b.add("include '" + sp[1] + "'", {'k': 'include', 'name': sp[1], 'file': stmts})
      if inner_hit:
        hit = True
        break
  del known
  return b.text(), b.stmts, hit


def flat_text(flat):
  b = S.Builder()
  for sp in flat:
    if sp[0] == 'bind':
      S.add_binding(b, sp[1], sp[2], sp[3], sp[4])
    elif sp[0] == 'macro':
      S.add_binding(b, '', sp[1], '', sp[2])
    elif sp[0] == 'block':
      S.add_block(b, sp[1], sp[2], sp[3])
    elif sp[0] in ('import', 'regimport'):
      b.add('import ' + sp[1], {})
  return b.text()


def gen_case(rng):
  regs = G.gen_registry(rng, rng.randint(2, 3))
  counter = [0]
  specs = gen_specs(rng, regs, 0, counter)
  npos = count_positions(specs)
  kind = rng.choice(FAULTS)
  fault = [rng.randint(0, npos - 1), kind, False] if rng.random() < 0.92 else None
  files, flat = {}, []
  _FAULT_REGMODS.clear()
  text, stmts, hit = render(rng, specs, regs, fault, files, flat)
  top_as_file = rng.random() < 0.4
  regmods = dict(collect_regmods(specs), **_FAULT_REGMODS)
  parse = {'op': 'parse', 'file': None, 'skip': {'k': 'no'}, 'stmts': stmts, '_text': text, '_files': files,
           '_regmods': regmods}
  if top_as_file:
    files = dict(files)
    files['top.gin'] = text
    parse.update(file='top.gin', _files=files)
  reg0 = regs[0]
  cls0 = [n for n, k in G.param_classes(reg0).items() if k == 'valid']
  ops = list(regs) + [parse, {'op': 'config'}, {'op': 'prov'}, {'op': 'imports'}, {'op': 'locked'}, {'op': 'curscope'}]
  if cls0:
    b2 = S.Builder()
    S.add_binding(b2, 'z', reg0['_selector'], cls0[0], rng.randint(0, 9))
    ops += [{'op': 'parse', 'file': None, 'skip': {'k': 'no'}, 'stmts': b2.stmts, '_text': b2.text(), '_files': {}},
            {'op': 'config'}, {'op': 'prov'}]
  ops.append({'op': 'registry'})   # what imported modules registered before the fault stays registered
  extra = None
  if fault is not None and len(fault) > 3:
    extra = fault[3]
  return {'dom': 'gin', 'ops': ops, '_flat_text': flat_text(flat), '_fault': fault[1] if (fault and fault[2]) else None,
          '_fault_pos': None if fault is None else fault[0], '_nregs': len(regs),
          '_block_prefix': extra, '_regmods': regmods}


def gen_locked_case(rng):
  """The configuration is locked: the first binding (at whatever include depth) fails with a located RuntimeError, and
  the statements before it - imports, includes entered - took effect as always."""
  regs = G.gen_registry(rng, rng.randint(1, 2))
  reg = regs[0]
  cls = [n for n, k in G.param_classes(reg).items() if k == 'valid'] or ['x']
  bind = ('bind', '', reg['_selector'], cls[0], G.gen_value(rng, 1))
  pre = [('import', m) for m in rng.sample(S.KNOWN_MODULES, rng.randint(0, 2))]
  inner_pre = [('import', m) for m in rng.sample(S.KNOWN_MODULES, rng.randint(0, 2))]
  shape = rng.choice(['flat', 'include', 'include2'])
  if shape == 'flat':
    specs = pre + [bind, ('import', 'json')]
    flat_specs = pre
  elif shape == 'include':
    specs = pre + [('include', 'incL.gin', inner_pre + [bind]), ('import', 'json')]
    flat_specs = pre + inner_pre
  else:
    specs = pre + [('include', 'incL.gin', inner_pre + [('include', 'incM.gin', [('import', 'os'), bind])]), bind]
    flat_specs = pre + inner_pre + [('import', 'os')]
  files, flat = {}, []
  text, stmts, _ = render(rng, specs, regs, None, files, flat)
  parse = {'op': 'parse', 'file': None, 'skip': {'k': 'no'}, 'stmts': stmts, '_text': text, '_files': files, '_regmods': {}}
  ops = list(regs) + [{'op': 'finalize'}, parse, {'op': 'config'}, {'op': 'prov'}, {'op': 'imports'}, {'op': 'locked'},
                      {'op': 'curscope'}, {'op': 'registry'}]
  return {'dom': 'gin', 'ops': ops, '_flat_text': flat_text(flat_specs), '_fault': 'locked', '_fault_pos': None,
          '_nregs': len(regs) + 1, '_block_prefix': None, '_regmods': {}}


def gen_unlock_case(rng):
  """A (usually failing) parse inside `with gin.unlock_config():` on a finalized configuration, the exception leaving
  the block: the lock is what it was before the block, whatever the parse did."""
  c = gen_case(rng)
  n = c['_nregs']
  regs, parse = c['ops'][:n], c['ops'][n]
  ops = list(regs) + [{'op': 'finalize'}, {'op': 'locked'},
                      {'op': 'unlock', 'body': [parse], 'raises': True, '_base': rng.random() < 0.3},
                      {'op': 'config'}, {'op': 'imports'}, {'op': 'locked'}, {'op': 'registry'}]
  return {'dom': 'gin', 'ops': ops, '_kind': 'unlock_parse', '_nregs': n, '_fault': c['_fault']}


def gen_located_case(rng):
  """The entry file exists in several search locations / readers and every copy fails at an include
  after its first statement: exactly the copy found first is applied up to there, the error
  propagates, no later copy is tried."""
  from props.c14 import gen_resolve_case
  while True:
    c = gen_resolve_case(rng)
    if c['ops'][0]['present']:
      break
  c['ops'][0]['_bad_include'] = True
  c['_kind'] = 'located'
  return c


# dynamic registration: the offending statement names its configurable through the file's own imports.  The root name
# may be imported while an attribute further down the dotted name does not exist (`mod.nope.y = 2`, a block header
# `mod.nope:`, a missing method of a class), the root name may be unknown, or the configurable exists and the
# parameter does not.  The statement sits 0-2 include levels below the entry point (a bindings string or a file):
# whatever the exception, it names the file and the line of the offending statement and of every include statement on
# the way, once each; the statements before took effect and those after did not.  A finite table on real files.
DYNLOC_SHAPES = ('missing_attr_bind', 'missing_attr_scoped', 'missing_attr_block', 'missing_method', 'missing_attr_deep',
                 'unknown_root', 'unknown_root_block', 'unknown_param', 'unknown_param_block')
DYNLOC_CASES = []
for _shape in DYNLOC_SHAPES:
  for _depth in (0, 1, 2):
    for _top in ('string', 'file'):
      _i = len(DYNLOC_CASES)
      DYNLOC_CASES.append({'dom': 'gin', '_kind': 'dynloc', 'shape': _shape, 'depth': _depth, 'top': _top, 'idx': _i,
                           'imp': ('plain', 'as', 'from')[_i % 3], 'pre': (_i // 2) % 3, 'pad': (_i // 3) % 3,
                           'ops': [], '_nregs': 0, '_fault': 'dynloc:' + _shape})


def run_dynloc_case(case):
  import os
  import re
  import shutil
  import sys
  import tempfile
  import core
  gin = core.fresh_gin()
  root = tempfile.mkdtemp(prefix='c16dyn-')
  pkg, depth = 'c16dynpkg%d' % case['idx'], case['depth']
  os.makedirs(os.path.join(root, pkg))
  open(os.path.join(root, pkg, '__init__.py'), 'w').close()
  with open(os.path.join(root, pkg, 'mod.py'), 'w') as f:
    f.write('def fn(x=0, y=0):\n  return x, y\n\n\nclass K:\n  def __init__(self, p=0):\n    self.p = p\n\n'
            '  def m(self, a=0):\n    return a\n')
  imp, name = {'plain': ('import %s.mod' % pkg, pkg + '.mod'), 'as': ('import %s.mod as dm' % pkg, 'dm'),
               'from': ('from %s import mod' % pkg, 'mod')}[case['imp']]
  fault = {'missing_attr_bind': name + '.nope.y = 2', 'missing_attr_scoped': 'a/b/' + name + '.nope.y = 2',
           'missing_attr_block': name + '.nope:\n  y = 2\n  x = 4', 'missing_method': name + '.K.nope.a = 2',
           'missing_attr_deep': name + '.nope.K.m.a = 2',
           'unknown_root': 'zz_unknown.fn.y = 2', 'unknown_root_block': 'zz_unknown.fn:\n  y = 2',
           'unknown_param': name + '.fn.nope = 2', 'unknown_param_block': name + '.fn:\n  nope = 2'}[case['shape']]
  head = ['# the innermost file'] * case['pad'] + ['from __gin__ import dynamic_registration', imp, '']
  pre = [name + '.fn.x = 1', 'PRE = 1'][:case['pre']]
  lines = head + pre
  fault_line = len(lines) + 1
  lines += [fault, name + '.fn.y = 3', 'AFTER = 1']
  texts = ['\n'.join(lines) + '\n']
  # innermost first: the line of the statement (for a member of a block that cannot be applied: of the member, the
  # header being in order), then of each include
  want = [fault_line + (case['shape'] == 'unknown_param_block')]
  for lvl in range(depth):
    fn = os.path.join(root, 'lvl%d.gin' % lvl)
    with open(fn, 'w') as f:
      f.write(texts[-1])
    padding = ['# level %d' % lvl] * ((case['pad'] + lvl) % 3)
    outer = padding + (['from __gin__ import dynamic_registration'] if (lvl + case['idx']) % 2 else []) + ['BEFORE%d = 1' % lvl]
    want.append(len(outer) + 1)
    texts.append('\n'.join(outer + ["include '%s'" % fn, 'AFTER%d = 1' % lvl]) + '\n')
  files = [os.path.join(root, 'lvl%d.gin' % lvl) for lvl in range(depth)]
  if case['top'] == 'file':
    files.append(os.path.join(root, 'top.gin'))
    with open(files[-1], 'w') as f:
      f.write(texts[-1])
  else:
    files.append(None)
  facts = {'want_chain': [[('lvl%d.gin' % i if i < depth else 'top.gin') if fn else None, ln]
                          for i, (fn, ln) in enumerate(zip(files, want))]}
  saved_path = list(sys.path)
  sys.path.insert(0, root)
  try:
    try:
      if case['top'] == 'file':
        gin.parse_config_file(files[-1])
      else:
        gin.parse_config(texts[-1])
      facts['outcome'] = 'ok'
    except SyntaxError as e:
      facts['outcome'], facts['msg'] = 'SyntaxError', str(e)[:300]
    except Exception as e:  # pylint: disable=broad-except
      facts['outcome'], facts['msg'] = type(e).__name__, str(e)[:600]
      facts['chain'] = [[os.path.basename(m.group(1)) if m.group(1) is not None else None, int(m.group(2))]
                        for m in re.finditer(r'In (?:file "([^"]*)",|bindings string) line (\d+)', str(e))]
    seen = {}
    for key in ['%PRE', '%AFTER', 'fn.x', 'fn.y'] + ['%' + b + str(l) for b in ('BEFORE', 'AFTER') for l in range(depth)]:
      try:
        seen[key] = gin.query_parameter(key)
      except Exception:  # pylint: disable=broad-except
        pass
    facts['store'] = seen
    facts['want_store'] = dict([('fn.x', 1), ('%PRE', 1)][:case['pre']] + [('%' + 'BEFORE%d' % l, 1) for l in range(depth)])
    facts['state'] = [gin.config_is_locked(), gin.current_scope_str()]
  finally:
    sys.path[:] = saved_path
    for m in [m for m in sys.modules if m == pkg or m.startswith(pkg + '.')]:
      del sys.modules[m]
    shutil.rmtree(root, ignore_errors=True)
  return {'out': [], 'facts': facts}


def dynloc_oracle(case, f):
  what = (f'dynamic registration, {case["shape"]} ({case["imp"]} import) {case["depth"]} include level(s) below a '
          f'{case["top"]}')
  if f.get('outcome') in ('ok', 'SyntaxError'):
    return f'{what}: the offending statement gave {f.get("outcome")} {f.get("msg", "")}'
  if sorted(map(repr, f.get('chain', []))) != sorted(map(repr, f['want_chain'])):
    return (f'{what}: the {f["outcome"]} names the locations {f.get("chain")}; the statement and the include statements '
            f'leading to it begin at {f["want_chain"]} (innermost first), each to be named once. Message: {f.get("msg")!r}')
  if f['store'] != f['want_store']:
    return f'{what}: after the failed parse {f["store"]} is set; exactly the statements before the fault give {f["want_store"]}'
  if f['state'] != [False, '']:
    return f'{what}: lock/scope after the failed parse: {f["state"]}'
  return None


def gen_cases(rng, tier, boost=1):
  yield from DYNLOC_CASES
  n = (600 if tier == 'quick' else 20000) * boost
  for k in range(n):
    yield gen_located_case(rng) if k % 8 == 7 else (gen_locked_case(rng) if k % 16 == 3 else (
        gen_unlock_case(rng) if k % 16 == 11 else gen_case(rng)))


def compare(case, impl, model):
  if case.get('_kind') == 'dynloc':
    return None
  return gindom.compare(case, impl, model)


def run_impl(case):
  if case.get('_kind') == 'dynloc':
    return run_dynloc_case(case)
  out = gindom.run_impl(case)
  if case.get('_kind') in ('located', 'unlock_parse'):
    return out
  # fresh interpreter: the registrations, then the flattened prefix
  regs = [o for o in case['ops'] if o['op'] == 'register']
  fresh = gindom.run_impl({'dom': 'gin', 'ops': regs + [
      {'op': 'parse', 'file': None, 'skip': {'k': 'no'}, 'stmts': [], '_text': case.get('_flat_text', ''), '_files': {},
       '_regmods': case.get('_regmods')},
      {'op': 'config'}, {'op': 'imports'}, {'op': 'registry'}]})
  out['fresh'] = fresh['out'][len(regs):]
  return out


def oracle(case, impl):
  if case.get('_kind') == 'dynloc':
    return dynloc_oracle(case, impl['facts'])
  if case.get('_kind') == 'unlock_parse':
    n = case['_nregs']
    fin, before, after = impl['out'][n], impl['out'][n + 1], impl['out'][-2]
    if 'ok' in fin and (before != {'ok': True} or after != {'ok': True}):
      return (f'a parse (fault: {case["_fault"]}) inside unlock_config on a finalized configuration, left by an exception: '
              f'locked before {before}, after {after}')
    return None
  if case.get('_kind') == 'located':
    op, res = case['ops'][0], impl['out'][0]
    order = [(p, r) for p in ([''] if op['abs'] else op['prefixes']) for r in op['readers']]
    first = next(([p, r] for p, r in order if [p, r] in [list(x) for x in op['present']]), None)
    if res.get('ok') != first:
      return f'every copy fails at an include after its first statement; the copy found first is {first}, observed {res}'
    return None
  nreg = case['_nregs']
  res = impl['out'][nreg]
  fr = impl['fresh']
  if 'err' in fr[0]:
    return f'harness: the flattened prefix itself fails in a fresh interpreter: {fr[0]}'
  cfg, imports, locked, scope = impl['out'][nreg + 1], impl['out'][nreg + 3], impl['out'][nreg + 4], impl['out'][nreg + 5]
  if case['_fault'] is None:
    if 'err' in res:
      return f'a valid config failed to parse: {res}'
  else:
    if 'ok' in res:
      return f'the injected fault ({case["_fault"]}) went unnoticed: {res}'
  if cfg != fr[1]:
    return (f'after the failed parse the store is {cfg}; exactly the statements before the fault give {fr[1]} '
            f'(fault {case["_fault"]})')
  if imports != fr[2]:
    return f'recorded imports after the failed parse {imports}; the prefix alone records {fr[2]}'
  if case['ops'][-1]['op'] == 'registry' and len(fr) > 3 and impl['out'][-1] != fr[3]:
    return f'registered after the failed parse: {impl["out"][-1]}; the prefix alone registers {fr[3]}'
  if case['_fault'] == 'import_raises' and res.get('err') != 'TypeError':
    return f'an import whose module raises its own TypeError subclass surfaced as {res.get("err")}'
  if case['_fault'] == 'import_clash' and res.get('err') != 'ValueError':
    return f'an import whose module registers a taken name surfaced as {res.get("err")}'
  if case['_fault'] == 'locked':
    if res.get('err') != 'RuntimeError' or not res.get('chain'):
      return f'the first binding under a locked configuration must fail with a located RuntimeError, got {res}'
    if locked != {'ok': True}:
      return f'the configuration was locked before the call and is {locked} after it'
  elif locked != {'ok': False} or scope != {'ok': []}:
    return f'lock/scope not as before the call: locked {locked} scope {scope}'
  if case['_fault'] in ('unknown_param', 'unknown_cfg', 'unknown_ref', 'denylisted') and res.get('err') not in ('ValueError',):
    return f'semantic fault {case["_fault"]} surfaced as {res.get("err")}'
  if case['_fault'] == 'bad_include' and res.get('err') != 'OSError':
    return f'missing include surfaced as {res.get("err")}'
  if case['_fault'] == 'bad_import' and res.get('err') != 'ImportError':
    return f'missing import surfaced as {res.get("err")}'
  return None


def nontrivial(case, impl):
  if case.get('_kind') in ('unlock_parse', 'dynloc'):
    return True
  if case.get('_kind') == 'located':
    return len(case['ops'][0]['present']) >= 2
  return case.get('_fault') is not None and case.get('_flat_text', '').strip() != ''


def tally(stats, case, impl):
  if case.get('_kind') == 'dynloc':
    stats['dynloc'] = stats.get('dynloc', 0) + 1
    return
  if case.get('_kind') == 'unlock_parse':
    stats['unlock_parse'] = stats.get('unlock_parse', 0) + 1
    return
  if case.get('_kind') == 'located':
    stats['located'] = stats.get('located', 0) + 1
    return
  k = 'fault:' + str(case.get('_fault'))
  stats[k] = stats.get(k, 0) + 1
  res = impl['out'][case['_nregs']]
  kk = 'outcome:' + ('ok' if 'ok' in res else res['err'])
  stats[kk] = stats.get(kk, 0) + 1
  if 'chain' in res:
    d = 'chain_depth=%d' % len(res['chain'])
    stats[d] = stats.get(d, 0) + 1


def classify(case, impl, model, why_oracle, why_model, findings):
  """D17: members of a block that precede a syntactically bad member are not applied."""
  for f in findings:
    if f['id'] == 'D17' and case.get('_fault') in ('bad_block_member', 'bad_dedent') and not why_model:
      bp = case.get('_block_prefix')
      if bp and bp[2] and why_oracle and 'exactly the statements before the fault' in why_oracle:
        return 'D17'
  return None
