"""C14 — includes act as in-place inclusion; files resolve through ordered locations."""
import gen_gin as G
import gen_stmts as S
import gindom
from gindom import to_driver  # noqa: F401
from props.c16 import gen_specs, render, flat_text, count_positions, collect_regmods  # noqa: F401

ID = 'C14'
DOMAIN = 'gin/stmts+files'
PROPS_FILES = ['Gin/Props/C14.lean', 'Gin/Props/C14b.lean']
ANCHOR_FILES = ['config.py', 'resource_reader.py']
RULE = ('(a) include trees of depth up to 3 written to real temporary files, with bindings of the same parameter before and '
        'after include statements and inside the included files, parsed through parse_config / parse_config_file / '
        'parse_config_files_and_bindings (called without optional arguments to test the defaults), the store compared '
        'with the parse of the flattened text in a fresh interpreter and the returned include/import tree with the '
        'mirror; a missing file at a random include position (with skip_unknown off, on, or a list of names); (b) 1-4 search locations x 1-3 readers with the file '
        'present at a random subset of the (location, reader) pairs, relative and absolute names, locations that are '
        'no directories of the file system (served by the registered readers only); the copy actually '
        'parsed and the locations named in the IOError are compared. non-trivial = include depth >= 2 with a parameter '
        'bound on both sides of an include, or >= 2 (location, reader) pairs holding the file; distinct = canonical case')
TRUSTED_BASE = ['Lean 4.33 kernel', 'axioms ⊆ {propext, Classical.choice, Quot.sound}', 'JSON glue (Gin/Drv)',
                'harness gen_stmts.py / gindom.py (real directories, in-memory readers)',
                'os.path.join / isabs / isfile and file I/O are the operating system\'s']
ASSUMPTIONS = ['package-relative names through the Python path (resource_reader) are exercised by a table on the real file system, not modelled',
               'statements rendered one per line']
EXPLANATION = ('Lean theorems about resolveFile (first readable copy in location-major order, absolute names bypass the '
               'locations, searched list), about include statements (result tree, failure chain, missing file applies '
               'nothing) and the multi-file entry point + differential run with real files and readers + '
               'fresh-interpreter parse of the flattened text.')


def gen_tree_case(rng):
  regs = G.gen_registry(rng, rng.randint(2, 3))
  counter = [0]
  specs = gen_specs(rng, regs, 0, counter)
  # force conflicts: re-bind one parameter around the includes
  known_sel = {r['_selector'] for r in regs}   # not the configurable an imported module registers half-way through
  binds = [sp for sp in specs if sp[0] == 'bind' and sp[2] in known_sel]
  missing = rng.random() < 0.15
  for i, sp in enumerate(list(specs)):
    if sp[0] == 'include' and binds:
      b0 = rng.choice(binds)
      sp[2].insert(rng.randint(0, len(sp[2])), ('bind', b0[1], b0[2], b0[3], rng.randint(100, 199)))
      specs.insert(i + 1, ('bind', b0[1], b0[2], b0[3], rng.randint(200, 299)))
      if rng.random() < 0.35 and not missing:
        # the same file included a second time: it is applied again, in place (not combined with a
        # fault: the file has one text)
        specs.insert(i + 2, sp)
      break
  fkind = 'bad_include'
  if missing and rng.random() < 0.4:
    # a binding of an unknown configurable somewhere in the tree, while skip_unknown lists *other* names only: an
    # error at every include depth, exactly as in the flattened text
    fkind = 'unknown_cfg'
  fault = [rng.randint(0, count_positions(specs) - 1), fkind, False] if missing else None
  files, flat = {}, []
  # with skip_unknown on, imports of modules that do not exist are dropped wherever they stand in the tree - and
  # are not among the imports the call reports for that file
  want_missing = (not missing) and rng.random() < 0.35
  if want_missing:
    def sprinkle(sp_list, depth=0):
      for sp in list(sp_list):
        if sp[0] == 'include':
          sprinkle(sp[2], depth + 1)
      if rng.random() < 0.6:
        sp_list.insert(rng.randint(0, len(sp_list)), ('import_missing', rng.choice(S.MISSING_MODULES)))
    sprinkle(specs)
  text, stmts, _ = render(rng, specs, regs, fault, files, flat)
  entry = rng.choice(['config', 'file', 'files_and_bindings'])
  regmods = collect_regmods(specs)
  ops = list(regs)
  # skip_unknown is about unknown configurables and imports, never about files: a missing include fails all the same
  pskip = {'k': 'no'}
  if want_missing or rng.random() < (0.6 if missing else 0.15):
    pskip = rng.choice([{'k': 'all'}, {'k': 'names', 'v': ['zz.q'], '_type': rng.choice(['list', 'tuple', 'set'])}])
  if fkind == 'unknown_cfg':
    pskip = rng.choice([{'k': 'no'}, {'k': 'names', 'v': ['other.name', 'q'], '_type': rng.choice(['list', 'tuple', 'set'])}])
  if entry == 'config':
    ops.append({'op': 'parse', 'file': None, 'skip': pskip, 'stmts': stmts, '_text': text, '_files': files, '_regmods': regmods,
                '_as_list': rng.random() < 0.2 and ':' not in text})
  elif entry == 'file':
    files = dict(files, **{'top.gin': text})
    ops.append({'op': 'parse', 'file': 'top.gin', 'skip': pskip, 'stmts': stmts, '_text': text, '_files': files,
                '_regmods': regmods})
  else:
    files = dict(files, **{'top.gin': text})
    b2 = S.Builder()
    reg0 = regs[0]
    cls0 = [n for n, k in G.param_classes(reg0).items() if k == 'valid']
    lines = []
    if cls0:
      S.add_binding(b2, '', reg0['_selector'], cls0[0], rng.randint(300, 399))
      if not (fault and fault[2]):
        flat.append(('bind', '', reg0['_selector'], cls0[0], b2.stmts[0]['val']))
      lines = b2.text().rstrip('\n').split('\n')
    fin = rng.random() < 0.6
    skip = pskip if ((fault and fault[2]) or want_missing) else {'k': 'no'}
    if rng.random() < 0.4 and not (fault and fault[2]):
      # skip_unknown must reach the extra bindings as well as the files
      skip = rng.choice([{'k': 'all'}, {'k': 'names', 'v': ['zz.q'], '_type': rng.choice(['list', 'tuple', 'set'])}])
      S.add_binding(b2, 'a', 'zz.q', 'x', rng.randint(0, 9))
      lines = b2.text().rstrip('\n').split('\n')
    if rng.random() < 0.08 and not fault:
      # nothing to parse at all: the entry point still finalizes unless told not to
      ops.append({'op': 'parsefiles', 'skip': {'k': 'no'}, 'files': [], 'bindings': [], 'finalize': fin,
                  '_binding_lines': rng.choice([[], None]), '_files': {}})
      flat[:] = []
    else:
      ops.append({'op': 'parsefiles', 'skip': skip, 'files': [['top.gin', stmts]], 'bindings': b2.stmts,
                  'finalize': fin, '_binding_lines': lines, '_files': files, '_regmods': regmods})
  ops += [{'op': 'config'}, {'op': 'imports'}, {'op': 'locked'}]
  return {'dom': 'gin', 'ops': ops, '_flat_text': flat_text(flat), '_kind': 'tree', '_nregs': len(regs), '_regmods': regmods,
          '_missing': bool(fault and fault[2]), '_entry': entry, '_fkind': fkind}


def gen_resolve_case(rng):
  nloc = rng.randint(1, 4)
  prefixes = [''] + ['loc%d' % i for i in range(1, nloc)]
  readers = ['open'] + ['mem%d' % i for i in range(1, rng.randint(1, 3))]
  is_abs = rng.random() < 0.25
  pkg = (not is_abs) and rng.random() < 0.4
  if pkg:
    readers = [readers[0], 'syspath'] + readers[1:]
  pairs = [(p, r) for p in prefixes for r in readers if r != 'syspath' or p == '']
  if is_abs:
    pairs = [('', r) for r in readers]
  virtual = [p for p in prefixes[1:] if len(readers) > 1 and rng.random() < 0.5] if not is_abs else []
  pairs = [(p, r) for p, r in pairs if not (p in virtual and r in ('open', 'syspath'))]
  present = rng.sample(pairs, rng.randint(0, len(pairs)))
  vpairs = [x for x in pairs if x[0] in virtual]
  if vpairs and rng.random() < 0.5:   # only the readers' own locations hold the file
    present = rng.sample(vpairs, rng.randint(1, len(vpairs)))
  if rng.random() < 0.15:
    present = []
  name = 'res_%04d.gin' % rng.randint(0, 9999)
  if not pkg and not is_abs:
    r2 = rng.random()
    if r2 < 0.2:
      name = '.' + name              # a dot-file is a file name like any other
    elif r2 < 0.3:
      name = './' + name
    elif r2 < 0.38:
      name = '..hidden/' + name      # a directory whose name starts with dots
  if pkg:
    name = 'c14rp%d/%s' % (rng.randint(0, 99999), name)
  rereg = rng.random() < 0.3 and len(prefixes) > 1
  if rereg:
    # a location registered a second time is simply in the list twice (appended): nothing moves
    prefixes = prefixes + [prefixes[1]]
  ops = [{'op': 'resolve', 'prefixes': prefixes, 'readers': readers, 'abs': is_abs,
          'present': [list(x) for x in present], '_name': name, '_pkg': pkg, '_rereg': rereg, '_bad_include': bool(present) and rng.random() < 0.25,
          '_dirs': [l for l in prefixes + ['syspath'] if rng.random() < 0.2 and l not in virtual], '_virtual': virtual}]
  return {'dom': 'gin', 'ops': ops, '_kind': 'resolve', '_nregs': 0}


# package-relative names: `pkg/conf.gin` is looked for inside the Python package `pkg` found on the Python path - a
# regular package, a namespace package (a plain directory, or several, without __init__.py), a directory of that name
# that is on the Python path but does not hold the file (the search goes on to the next registered location), and a
# name nobody can read (IOError naming the locations) - a finite table on the real code and the real file system
PKGPATH_CASES = [{'dom': 'gin', '_kind': 'pkgpath', 'where': w, 'depth': d, 'ops': [], '_nregs': 0}
                 for w in ('regular', 'namespace', 'namespace_two_roots', 'shadow_dir_then_location', 'nowhere',
                           # the same name looked up twice, the world having changed in between: a file of that name
                           # appeared in an earlier location; the Python path got a new first root holding the package
                           'appears_in_earlier_location', 'python_path_changed')
                 for d in (1, 2)]


def run_pkgpath_case(case):
  import os
  import shutil
  import sys
  import tempfile
  import core
  gin = core.fresh_gin()
  root = tempfile.mkdtemp(prefix='c14pkg-')
  tag = f'c14p_{case["where"]}_{case["depth"]}'       # fresh package names: importlib caches what it has seen
  parts = [tag] + (['conf'] if case['depth'] == 2 else [])
  rel = '/'.join(parts) + '/x.gin'
  saved_path, saved_cwd = list(sys.path), os.getcwd()
  facts = {}

  def tree(base, with_init, value):
    d = os.path.join(root, base, *parts)
    os.makedirs(d, exist_ok=True)
    if with_init:
      for k in range(1, len(parts) + 1):
        open(os.path.join(root, base, *parts[:k], '__init__.py'), 'a').close()
    if value is not None:
      with open(os.path.join(d, 'x.gin'), 'w') as f:
        f.write(f'WHO = {value!r}\n')
  try:
    os.chdir(root)     # nothing of that name in the current directory
    w = case['where']
    if w == 'regular':
      tree('site', True, 'regular')
    elif w == 'namespace':
      tree('site', False, 'namespace')
    elif w == 'namespace_two_roots':
      tree('site', False, None)
      tree('site2', False, 'second root')
      sys.path.insert(0, os.path.join(root, 'site2'))
    elif w == 'shadow_dir_then_location':
      tree('site', False, None)            # on the Python path, but the file is not there
      tree('extra', False, 'location')
      gin.add_config_file_search_path(os.path.join(root, 'extra'))
    elif w == 'appears_in_earlier_location':
      tree('locb', False, 'later location')
      os.makedirs(os.path.join(root, 'loca', *parts), exist_ok=True)
      gin.add_config_file_search_path(os.path.join(root, 'loca'))
      gin.add_config_file_search_path(os.path.join(root, 'locb'))
      gin.parse_config_file(rel)
      facts['first'] = gin.query_parameter('%WHO')
      gin.clear_config()
      tree('loca', False, 'earlier location')
    elif w == 'python_path_changed':
      tree('site', True, 'old root')
      sys.path.insert(0, os.path.join(root, 'site'))
      gin.parse_config_file(rel)
      facts['first'] = gin.query_parameter('%WHO')
      gin.clear_config()
      tree('site2', True, 'new root')
      sys.path.insert(0, os.path.join(root, 'site2'))
      for name in [m for m in sys.modules if m == tag or m.startswith(tag + '.')]:
        del sys.modules[name]          # the package was never imported by us; be sure of it
      import importlib
      importlib.invalidate_caches()
    else:
      tree('site', False, None)
      gin.add_config_file_search_path(os.path.join(root, 'extra'))
    if w != 'python_path_changed':
      sys.path.insert(0, os.path.join(root, 'site'))
    try:
      gin.parse_config_file(rel)
      facts['outcome'] = gin.query_parameter('%WHO')
    except Exception as e:  # pylint: disable=broad-except
      facts['outcome'] = type(e).__name__
      facts['names_locations'] = 'extra' in str(e)
    facts['want'] = {'regular': 'regular', 'namespace': 'namespace', 'namespace_two_roots': 'second root',
                     'shadow_dir_then_location': 'location', 'nowhere': 'OSError',
                     'appears_in_earlier_location': 'earlier location', 'python_path_changed': 'new root'}[w]
  finally:
    sys.path[:] = saved_path
    os.chdir(saved_cwd)
    shutil.rmtree(root, ignore_errors=True)
  return {'out': [], 'facts': facts}


# a parse that fails inside an included file, then - in the same process - a second parse of the same files: an
# include is the file's statements applied in place, whatever happened to an earlier parse of that file.  The fault sits
# in the innermost file of a chain of 1-3 includes (a file nobody can read / an unknown configurable / a syntax
# error); then either the cause is repaired (the file is written / rewritten, or skip_unknown is passed) and the
# second parse must give exactly the store and the result tree of the flattened text, or nothing is repaired and the
# second parse must fail like the first one did.  The second parse enters through the same top file, through the
# middle file directly, or through another top file including the middle file.  A finite table on real files.
REPARSE_CASES = []
for _d in (1, 2, 3):
  for _fault in ('missing', 'unknown', 'syntax'):
    for _mode in ('repaired', 'again') + (('skip_unknown',) if _fault == 'unknown' else ()):
      for _entry in ('file', 'config', 'files_and_bindings'):
        _i = len(REPARSE_CASES)
        REPARSE_CASES.append({'dom': 'gin', '_kind': 'reparse', 'depth': _d, 'fault': _fault, 'mode': _mode,
                              'entry': _entry, 'second': ('same_top', 'other_top', 'mid_directly')[_i % 3] if _d > 1 else 'same_top',
                              'naming': ('relative', 'absolute')[(_i // 3) % 2], 'ops': [], '_nregs': 0})


def run_reparse_case(case):
  import os
  import shutil
  import tempfile
  import core
  gin = core.fresh_gin()
  root = tempfile.mkdtemp(prefix='c14re-')
  saved_cwd = os.getcwd()
  d, fault, mode = case['depth'], case['fault'], case['mode']
  names = ['top.gin'] + ['f%d.gin' % i for i in range(1, d + 1)]

  def ref(i):
    return names[i] if case['naming'] == 'relative' else os.path.join(root, names[i])

  def write(name, text):
    with open(os.path.join(root, name), 'w') as f:
      f.write(text)
  # flat[i] = the (macro, value) pairs of file i with its includes expanded in place, the innermost file in good order
  leaf_pairs = [('A', 'leaf'), ('B', 'leaf'), ('L%d' % d, d)]
  flat = {d: leaf_pairs}
  for i in range(d - 1, -1, -1):
    flat[i] = [('A', 'f%d-before' % i)] + flat[i + 1] + [('B', 'f%d-after' % i), ('L%d' % i, i)]
    write(names[i], "A = 'f%d-before'\ninclude '%s'\nB = 'f%d-after'\nL%d = %d\n" % (i, ref(i + 1), i, i, i))
  flat['other'] = (flat[1] if d > 1 else []) + [('A', 'top2')]
  if d > 1:
    write('top2.gin', "include '%s'\nA = 'top2'\n" % ref(1))
  good = "A = 'leaf'\nB = 'leaf'\nL%d = %d\n" % (d, d)
  bad = {'missing': None,
         'unknown': "A = 'leaf'\nc14_nosuch_configurable.x = 1\nB = 'leaf'\nL%d = %d\n" % (d, d),
         'syntax': "A = 'leaf'\nB = = 2\nL%d = %d\n" % (d, d)}[fault]
  if bad is not None:
    write(names[d], bad)
  universe = ['A', 'B'] + ['L%d' % i for i in range(0, 4)]

  def store():
    got = {}
    for m in universe:
      try:
        got[m] = gin.query_parameter('%' + m)
      except ValueError:
        pass
    return got

  def tree(r):
    return [os.path.basename(r.filename), [tree(x) for x in r.includes]]

  def parse(which, skip):
    target = {'same_top': ref(0), 'other_top': 'top2.gin' if case['naming'] == 'relative' else os.path.join(root, 'top2.gin'),
              'mid_directly': ref(1)}[which]
    kw = {'skip_unknown': True} if skip else {}
    try:
      if case['entry'] == 'file':
        r = tree(gin.parse_config_file(target, **kw))
      elif case['entry'] == 'config':
        incs, _ = gin.parse_config("include '%s'\n" % target, **kw)
        r = [tree(x) for x in incs][0]
      else:
        r = [tree(x) for x in gin.parse_config_files_and_bindings([target], None, finalize_config=False, **kw)][0]
      return {'ok': r, 'store': store()}
    except Exception as e:  # pylint: disable=broad-except
      return {'err': type(e).__name__, 'msg': (str(e).splitlines() or [''])[0], 'names_file': names[d] in str(e),
              'store': store()}
  facts = {}
  try:
    os.chdir(root)
    facts['first'] = parse('same_top', False)
    gin.clear_config()
    if mode == 'repaired':
      write(names[d], good)
    facts['second'] = parse(case['second'], mode == 'skip_unknown')
    key = {'same_top': 0, 'other_top': 'other', 'mid_directly': 1}[case['second']]
    facts['want_store'] = dict(flat[key])
    chain = [names[d], []]
    for i in range(d - 1, (0 if case['second'] != 'same_top' else -1), -1):
      chain = [names[i], [chain]]
    facts['want_tree'] = ['top2.gin', [chain]] if case['second'] == 'other_top' else chain
  finally:
    os.chdir(saved_cwd)
    shutil.rmtree(root, ignore_errors=True)
  return {'out': [], 'facts': facts}


def reparse_oracle(case, f):
  what = (f'include chain of depth {case["depth"]} ({case["naming"]} names, entry {case["entry"]}), innermost file '
          f'{case["fault"]}')
  want_err = {'missing': 'OSError', 'unknown': 'ValueError', 'syntax': 'SyntaxError'}[case['fault']]
  first, second = f['first'], f['second']
  if first.get('err') != want_err or (case['fault'] == 'missing' and not first.get('names_file')):
    return f'{what}: the parse gave {first}, expected {want_err}'
  if case['mode'] == 'again':
    # nothing changed: the second parse fails as the first one did (the same text is included in place)
    if second.get('err') != want_err or second.get('msg') != first.get('msg'):
      return (f'{what}: a second parse ({case["second"]}) of the unchanged files gave {second}, the first one '
              f'{first}')
    return None
  if 'err' in second:
    return f'{what}: after {case["mode"]} the second parse ({case["second"]}) failed: {second}'
  if second['store'] != f['want_store']:
    return (f'{what}: after {case["mode"]} the second parse ({case["second"]}) left {second["store"]}, the flattened '
            f'text gives {f["want_store"]}')
  if second['ok'] != f['want_tree']:
    return f'{what}: after {case["mode"]} the second parse returned the tree {second["ok"]}, expected {f["want_tree"]}'
  return None


def gen_cases(rng, tier, boost=1):
  yield from PKGPATH_CASES
  yield from REPARSE_CASES
  n = (400 if tier == 'quick' else 12000) * boost
  for _ in range(n):
    yield gen_tree_case(rng)
  for _ in range((300 if tier == 'quick' else 10000) * boost):
    yield gen_resolve_case(rng)


def compare(case, impl, model):
  if case['_kind'] in ('pkgpath', 'reparse'):
    return None
  return gindom.compare(case, impl, model)


def run_impl(case):
  if case['_kind'] == 'pkgpath':
    return run_pkgpath_case(case)
  if case['_kind'] == 'reparse':
    return run_reparse_case(case)
  out = gindom.run_impl(case)
  if case['_kind'] == 'tree':
    regs = [o for o in case['ops'] if o['op'] == 'register']
    fresh = gindom.run_impl({'dom': 'gin', 'ops': regs + [
        {'op': 'parse', 'file': None, 'skip': {'k': 'no'}, 'stmts': [], '_text': case['_flat_text'], '_files': {},
         '_regmods': case.get('_regmods')},
        {'op': 'config'}, {'op': 'imports'}]})
    out['fresh'] = fresh['out'][len(regs):]
  return out


def oracle(case, impl):
  if case['_kind'] == 'reparse':
    return reparse_oracle(case, impl['facts'])
  if case['_kind'] == 'pkgpath':
    f = impl['facts']
    if f.get('outcome') != f.get('want') or (f.get('want') == 'OSError' and not f.get('names_locations')):
      return (f'package-relative name, {case["where"]}, package depth {case["depth"]}: outcome {f.get("outcome")!r} '
              f'(names the locations: {f.get("names_locations")}), expected {f.get("want")!r}')
    return None
  if case['_kind'] == 'resolve':
    op, res = case['ops'][0], impl['out'][0]
    present = [tuple(x) for x in op['present']]
    order = [(p, r) for p in ([''] if op['abs'] else op['prefixes']) for r in op['readers']]
    want = next((x for x in order if x in present), None)
    if want is None:
      if res.get('err') != 'OSError':
        return f'nobody can read the file but the outcome is {res}'
      searched = [c[0] for c in res.get('chain', [])]
      if searched != ([''] if op['abs'] else op['prefixes']):
        return f'IOError names locations {searched}, searched were {[""] if op["abs"] else op["prefixes"]}'
      return None
    if res != {'ok': list(want)}:
      return f'first readable copy in registration order is {want} but {res} was used'
    return None
  n = case['_nregs']
  res, cfg, imports, locked = impl['out'][n], impl['out'][n + 1], impl['out'][n + 2], impl['out'][n + 3]
  fr = impl['fresh']
  if 'err' in fr[0]:
    return f'harness: flattened text fails: {fr[0]}'
  if case['_missing']:
    want_err = 'ValueError' if case.get('_fkind') == 'unknown_cfg' else 'OSError'
    if res.get('err') != want_err:
      return f'{case.get("_fkind", "bad_include")} somewhere in the include tree (skip_unknown={case["ops"][n].get("skip")}) surfaced as {res}'
  elif 'err' in res and not (case['_entry'] == 'files_and_bindings' and res.get('err') in ('ValueError',)):
    return f'valid include tree failed: {res}'
  if cfg != fr[1]:
    return f'store {cfg} differs from the store of the flattened text {fr[1]}'
  if case['_entry'] != 'files_and_bindings' and locked != {'ok': False}:
    return f'parse locked the configuration: {locked}'
  return None


def nontrivial(case, impl):
  if case['_kind'] in ('pkgpath', 'reparse'):
    return True
  if case['_kind'] == 'resolve':
    return len(case['ops'][0]['present']) >= 2

  def depth(stmts):
    return max([1 + depth(s['file']) for s in stmts if s.get('k') == 'include' and s.get('file')] + [0])
  op = case['ops'][case['_nregs']]
  stmts = op['stmts'] if op['op'] == 'parse' else (op['files'][0][1] if op['files'] else [])
  return depth(stmts) >= 1


def tally(stats, case, impl):
  if case['_kind'] in ('pkgpath', 'reparse'):
    stats['kind:' + case['_kind']] = stats.get('kind:' + case['_kind'], 0) + 1
    return
  k = 'kind:' + case['_kind'] + (':' + case.get('_entry', '') if case['_kind'] == 'tree' else '')
  stats[k] = stats.get(k, 0) + 1
  res = impl['out'][case['_nregs']]
  kk = case['_kind'] + ':' + ('ok' if 'ok' in res else res['err'])
  stats[kk] = stats.get(kk, 0) + 1


def classify(case, impl, model, why_oracle, why_model, findings):
  return None
