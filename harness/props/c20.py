"""C20 — clear_config returns the configuration to its pristine state."""
import json
import gen_gin as G
import gindom
import refmodel
from gindom import to_driver  # noqa: F401
from props import c12


TABLE_KINDS = ('singleton_retry', 'finalizer')


def compare(case, impl, model):
  if case.get('_kind') in TABLE_KINDS:
    return None
  return gindom.compare(case, impl, model)


def tally(stats, case, impl):
  if case.get('_kind') in TABLE_KINDS:
    stats[case['_kind']] = stats.get(case['_kind'], 0) + 1
    return
  c12.tally(stats, case, impl)

ID = 'C20'
DOMAIN = 'gin/state'
PROPS_FILES = ['Gin/Props/C20.lean']
ANCHOR_FILES = ['config.py', 'selector_map.py']
RULE = ('2-3 registered probes; a history of 6-20 operations over C12\'s alphabet plus calls under scopes, singleton '
        'uses, constants with shared suffixes defined inside and outside interactive mode and failed operations; then '
        'clear_config() or clear_config(clear_constants=True); then the observers (store, operative record, lock flag, '
        'constants, registry, singleton re-use) and 1-3 calls. The same post-clear tail is also run in a fresh '
        'interpreter that performed only the registrations (and constant definitions when they survive). non-trivial = '
        'the history before the clear has at least 3 successful mutating operations; distinct = canonical ops')
TRUSTED_BASE = ['Lean 4.33 kernel', 'axioms ⊆ {propext, Classical.choice, Quot.sound}', 'JSON glue (Gin/Drv)',
                'harness gindom.py / gen_gin.py / refmodel.py']
ASSUMPTIONS = ['observers are the ones listed in the property (config_str is covered structurally through the store; its text by C06)']
EXPLANATION = ('Lean theorems about State.clear (totality, pristine fields, observational freshness for every observer '
               'of the model) + differential run + fresh-interpreter comparison of the post-clear tail.')

# 'gin.REQUIRED' only in interactive mode; the other names under `gin.` are ordinary user constants that happen to live in
# Gin's namespace: a full clear drops them like any other
CONST_NAMES = ['X', 'd.X', 'e.d.X', 'Y', 'd.Y', 'q.Z', 'gin.REQUIRED', 'gin.tf.X', 'gin.Z', 'gin.d.Y']


def gen_case(rng):
  regs = G.gen_registry(rng, rng.randint(2, 3))
  scopes = [[], ['a'], ['a', 'b']]
  pre = []
  defined = {}
  interactive = False
  next_obj = [100]
  for _ in range(rng.randint(6, 20)):
    r = rng.random()
    if r < 0.5:
      pre += G.gen_history(rng, regs, 1, scopes, next_obj=next_obj)
    elif r < 0.65:
      pre.append(G.gen_call(rng, rng.choice(regs), G.gen_enter(rng, rng.choice(scopes))))
    elif r < 0.75:
      pre.append({'op': 'singleton', 'key': rng.choice(['s1', 's2', 'a/s1']), 'ctor': rng.random() < 0.85,
                  '_via_cfg': rng.random() < 0.4})
    elif r < 0.9:
      cn = rng.choice(CONST_NAMES)
      pre.append({'op': 'constant', 'name': cn, 'nameValid': True,
                  'val': ({'o': rng.choice([21, 22])} if rng.random() < 0.2 else   # enum members (IntEnum / str enum)
                          {'o': 300 + rng.randint(0, 9)} if rng.random() < 0.5 else
                          (G.REQ if rng.random() < 0.15 else G.gen_value(rng, 1)))})
      if interactive or not refmodel.suffix_matches(defined, cn):
        defined[cn] = True
    elif r < 0.95:
      # a constant looked up by a (partial) name: what it resolves to is a matter of the constants of that moment
      cn = rng.choice(CONST_NAMES)
      parts = cn.split('.')
      pre.append({'op': 'macrolookup', 'name': '.'.join(parts[-rng.randint(1, len(parts)):])})
    else:
      interactive = rng.random() < 0.7
      pre.append({'op': 'interactive', 'on': interactive})
  pre = [o for o in pre if o['op'] != 'clear']
  if rng.random() < 0.3:
    # a stored reference written with a short name that a later registration makes ambiguous: the configuration can
    # no longer be printed, and is cleared like any other
    tgt, cons = rng.choice(regs), rng.choice(regs)
    bare = tgt['_selector'].split('.')[-1]
    cls = [n for n, k in G.param_classes(cons).items() if k == 'valid']
    if cls and refmodel.suffix_matches({r['_selector']: True for r in regs}, bare) == [tgt['_selector']]:
      pre.append({'op': 'bind', 'scope': rng.choice(['', 'a']), 'sel': cons['_selector'], 'arg': rng.choice(cls),
                  'val': {'ref': [[], tgt['_selector'], False], '_spelled': bare}, '_form': 'text', 'block': False})
      late = G.gen_late_register(rng, next_obj[0] + 50)
      late.update(name=bare, module='lm2', _pymodule='lm2', _selector='lm2.' + bare)
      pre.append(late)
      if rng.random() < 0.5:
        pre.append({'op': 'finalize'})
  if rng.random() < 0.2:
    # a bound value that cannot be printed (its repr raises): the configuration is cleared without being printed
    cons = rng.choice(regs)
    cls = [n for n, k in G.param_classes(cons).items() if k == 'valid']
    if cls:
      pre.append({'op': 'bind', 'scope': rng.choice(['', 'a']), 'sel': cons['_selector'], 'arg': rng.choice(cls),
                  'val': {'o': 470 + rng.randint(0, 3)}, '_form': 'tuple', 'block': False})
  clear = {'op': 'clear', 'constants': rng.random() < 0.35}
  # which constants exist is decided by the reference run over the whole prefix (histories toggle
  # interactive mode themselves, so the local flag above is not the whole story)
  ref = refmodel.Ref()
  for op in list(regs) + pre:
    ref.step(refmodel._strip_values(op))  # pylint: disable=protected-access
  defined = {c: True for c in ref.constants if c != 'gin.REQUIRED'}
  const_names = sorted(c for c in defined if refmodel.suffix_matches(defined, c) == [c])
  tail = [{'op': 'locked'}, {'op': 'config'}, {'op': 'operative'}, {'op': 'constants'}, {'op': 'registry'},
          {'op': 'singleton', 'key': 's1', 'ctor': False}, {'op': 'singleton', 'key': 's1', 'ctor': True},
          {'op': 'prov'}, {'op': 'opprov'}]
  for _ in range(rng.randint(1, 3)):
    tail.append(G.gen_call(rng, rng.choice(regs), G.gen_enter(rng, rng.choice(scopes))))
  for _ in range(rng.randint(1, 3)):   # names of constants, complete and partial, looked up (and defined) after the clear
    cn = rng.choice(CONST_NAMES)
    parts = cn.split('.')
    tail.append({'op': 'macrolookup', 'name': '.'.join(parts[-rng.randint(1, len(parts)):])})
    if rng.random() < 0.4:
      tail.append({'op': 'constant', 'name': parts[-1], 'nameValid': True, 'val': {'o': 310 + rng.randint(0, 9)}})
      tail.append({'op': 'constants'})
  b = G.gen_bind_attempt(rng, regs, scopes)
  tail += [b, {'op': 'config'}, {'op': 'operative'}, {'op': 'prov'}, {'op': 'opprov'}]
  # a surviving constant must still be the very same object: deliver it through a consuming call
  if const_names and not clear['constants']:
    cons = rng.choice(regs)
    cls = [n for n, k in G.param_classes(cons).items() if k == 'valid']
    if cls and all(p[1] is not None or p[0] in ('self', 'cls') for p in cons['sig']['pos'] + cons['sig']['kwonly']):
      cname = rng.choice(const_names)
      tail.append({'op': 'macrolookup', 'name': cname})
      tail.append({'op': 'bind', 'scope': '', 'sel': cons['_selector'], 'arg': rng.choice(cls),
                   'val': {'const': cname}, '_form': 'text', 'block': False, '_maybe_ambiguous': True})
      call = G.gen_call(rng, cons, [], w_bad=0.0)
      call['op'] = 'ecall'
      call['args'] = call['args'][:1] if '_selfname' in call else []
      call['kwargs'] = []
      tail += [call, {'op': 'log'}]
  # after a clear that also drops the constants, gin.REQUIRED is the marker again (even if it had been
  # redefined in interactive mode): a parameter left at %gin.REQUIRED makes the call fail
  if clear['constants']:
    cons = rng.choice(regs)
    cls = [n for n, k in G.param_classes(cons).items() if k == 'valid']
    if cls and all(p[1] is not None or p[0] in ('self', 'cls') for p in cons['sig']['pos'] + cons['sig']['kwonly']):
      tail.append({'op': 'bind', 'scope': '', 'sel': cons['_selector'], 'arg': rng.choice(cls),
                   'val': {'const': 'gin.REQUIRED'}, '_form': 'text', 'block': False})
      call = G.gen_call(rng, cons, [], w_bad=0.0)
      call['op'] = 'ecall'
      call['args'] = call['args'][:1] if '_selfname' in call else []
      call['kwargs'] = []
      tail += [call, {'op': 'log'}]
  if rng.random() < 0.5:
    # the cleared configuration locked again: calls under the lock see the bindings of *now*
    tail.append({'op': 'finalize'})
    for _ in range(rng.randint(1, 3)):
      call = G.gen_call(rng, rng.choice(regs), G.gen_enter(rng, rng.choice(scopes)))
      call['op'] = 'ecall'     # the store may hold %constants by now: the evaluating layer
      tail.append(call)
    tail += [{'op': 'operative'}, {'op': 'locked'}]
  return {'dom': 'gin', 'ops': list(regs) + pre + [clear] + tail, '_ntail': len(tail)}


# a singleton whose constructor fails (it raises, or a required binding is missing): nothing is cached, and after
# clear_config - or straight away - the same scope name is usable like in a fresh process; a finite table on the real code
RETRY_CASES = [{'dom': 'gin', '_kind': 'singleton_retry', 'fail': fl, 'clear': cl, 'key': k, 'ops': []}
               for fl in ('raises', 'missing_required', 'base_exception') for cl in (None, False, True) for k in ('db', 'a/db')] + \
    [{'dom': 'gin', '_kind': 'singleton_retry', 'fail': 'print_fails', 'clear': cl, 'key': w, 'ops': []}
     for cl in (False, True) for w in ('operative', 'config', 'both')]


def run_retry_case(case):
  import core
  gin = core.fresh_gin()
  g = {'__name__': 'rt', 'gin': gin}
  exec('def make_db(url=gin.REQUIRED, port=1):\n  return {"url": url, "port": port}\n'  # pylint: disable=exec-used
       'def consumer(db=None):\n  return db\n', g)
  gin.configurable(g['make_db'])
  consumer = gin.configurable(g['consumer'])
  key = case['key']
  facts = {}

  class Stop(BaseException):
    pass
  if case['fail'] == 'print_fails':
    # a value that cannot be printed sits in the configuration / the operative record; printing fails; clear_config
    # (run aside with a time limit: a lock left behind must not be waited for for ever) still succeeds
    import threading
    from encode import BadRepr
    gin.bind_parameter('rt.consumer.db', BadRepr.get(471))
    consumer()
    for name in {'operative': ['operative_config_str'], 'config': ['config_str'], 'both': ['config_str', 'operative_config_str']}[key]:
      try:
        getattr(gin, name)()
        facts[name] = 'returned'
      except RuntimeError:
        facts[name] = 'failed'
    done = []
    t = threading.Thread(target=lambda: (gin.clear_config(clear_constants=case['clear']), done.append(True)), daemon=True)
    t.start()
    t.join(15)
    facts['clear_finished'] = bool(done)
    if done:
      facts['pristine'] = gin.config_str() == '' and gin.operative_config_str() == '' and not gin.config.config_is_locked()
    return {'out': [], 'facts': facts}
  try:
    if case['fail'] == 'missing_required':
      gin.parse_config(f'rt.consumer.db = @{key}/gin.singleton()\n{key}/gin.singleton.constructor = @rt.make_db\n')
      try:
        consumer()
        facts['first'] = 'returned'
      except RuntimeError:
        facts['first'] = 'failed'
    else:
      exc = ValueError if case['fail'] == 'raises' else Stop

      def bad():
        raise exc('constructor fails')
      try:
        gin.config.singleton_value(key, bad)
        facts['first'] = 'returned'
      except (ValueError, Stop):
        facts['first'] = 'failed'
    if case['clear'] is not None:
      gin.clear_config(clear_constants=case['clear'])
    gin.parse_config(f'rt.consumer.db = @{key}/gin.singleton()\n{key}/gin.singleton.constructor = @rt.make_db\n'
                     f'rt.make_db.url = "sqlite://"\n')
    a, b = consumer(), consumer()
    facts['second'] = a
    facts['same_object'] = a is b
  except BaseException as e:  # pylint: disable=broad-except
    facts['error'] = f'{type(e).__name__}: {e}'[:300]
  return {'out': [], 'facts': facts}


# objects that only Gin holds (a cached singleton, a bound value no call has consumed, a constant's value) and whose
# finalizer calls a configurable, leaving a parameter to Gin: clear_config drops them, and when it returns there is no
# operative record all the same (CPython finalizes an object the moment its last reference goes); a finite table on
# the real code.  [A bound value that a call has consumed is not in the table: the operative record holds it too.]
FINALIZER_CASES = [{'dom': 'gin', '_kind': 'finalizer', 'holder': h, 'clear': cl, 'scope': sc, 'bound': bd, 'n': n,
                    'finalize': fz, 'ops': []}
                   for h in ('singleton_cfg', 'singleton_api', 'bound_value', 'constant')
                   for cl in (False, True) if not (h == 'constant' and not cl)
                   for sc, bd, n, fz in (('', True, 1, False), ('a', False, 2, True), ('a/b', True, 2, False), ('', False, 1, True))]


def run_finalizer_case(case):
  import core
  gin = core.fresh_gin()
  released, failed = [], []
  g = {'__name__': 'fz', 'gin': gin, 'released': released, 'failed': failed, 'SCOPE': case['scope']}
  exec('def release(handle="?", grace=5):\n  return handle, grace\n'  # pylint: disable=exec-used
       'class Res:\n'
       '  def __init__(self, name="main"):\n    self.name = name\n'
       '  def __del__(self):\n'
       '    try:\n'
       '      if SCOPE:\n'
       '        with gin.config_scope(SCOPE):\n          release(handle=self.name)\n'   # `grace` is left to Gin
       '      else:\n        release(handle=self.name)\n'
       '      released.append(self.name)\n'
       '    except BaseException as e:\n      failed.append(repr(e))\n'
       'def consumer(res=None, other=None):\n  return getattr(res, "name", None), getattr(other, "name", None)\n'
       'def probe(w=1):\n  return w\n', g)
  g['release'] = gin.configurable(g['release'])
  res_cls = gin.external_configurable(g['Res'], module='fz')   # the class itself stays undecorated
  consumer = gin.configurable(g['consumer'])
  probe = gin.configurable(g['probe'])
  keys = ['pool', 'a/pool'][:case['n']]
  facts = {}
  try:
    if case['bound']:
      gin.bind_parameter((case['scope'] + '/' if case['scope'] else '') + 'fz.release.grace', 30)
    holder = case['holder']
    if holder == 'singleton_cfg':
      gin.parse_config(''.join(f'{k}/gin.singleton.constructor = @fz.Res\n' for k in keys) +
                       ''.join(f'fz.consumer.{p} = @{k}/gin.singleton()\n' for p, k in zip(('res', 'other'), keys)))
      facts['consumed'] = list(consumer())
    elif holder == 'singleton_api':
      for k in keys:
        gin.config.singleton_value(k, res_cls)
    elif holder == 'bound_value':
      for p in ('res', 'other')[:case['n']]:
        gin.bind_parameter('fz.consumer.' + p, g['Res'](p))
    else:
      for i in range(case['n']):
        gin.constant('fz.c%d.RES' % i, g['Res']('c%d' % i))
    probe()
    del released[:]      # (temporaries of the set-up)
    facts['alive_before'] = not released and not failed
    facts['record_before'] = gin.operative_config_str() != ''
    if case['finalize']:
      gin.finalize()
    gin.clear_config(clear_constants=case['clear'])
    facts['released'] = len(released)
    facts['finalizer_failed'] = list(failed)
    facts['operative'] = gin.operative_config_str()
    facts['config'] = gin.config_str()
    facts['locked'] = gin.config.config_is_locked()
    cached = []
    for k in keys:
      try:
        gin.config.singleton_value(k)
        cached.append(k)
      except ValueError:
        pass
    facts['cached'] = cached
    facts['probe'] = probe()
    facts['operative_after_probe'] = gin.operative_config_str()
  except BaseException as e:  # pylint: disable=broad-except
    facts['error'] = f'{type(e).__name__}: {e}'[:300]
  return {'out': [], 'facts': facts}


def gen_cases(rng, tier, boost=1):
  yield from RETRY_CASES
  yield from FINALIZER_CASES
  n = (700 if tier == 'quick' else 15000) * boost
  for _ in range(n):
    yield gen_case(rng)


def run_impl(case):
  if case.get('_kind') == 'singleton_retry':
    return run_retry_case(case)
  if case.get('_kind') == 'finalizer':
    return run_finalizer_case(case)
  out = gindom.run_impl(case)
  ops = case['ops']
  ntail = case.get('_ntail')
  if ntail:
    k = len(ops) - ntail - 1
    clear = ops[k]
    # fresh interpreter: registrations (in order, incl. late ones that succeeded), surviving constants
    keep = []

    def collect(ops_, outs_):
      for op, res in zip(ops_, outs_):
        if op['op'] == 'register' and 'ok' in res:
          keep.append(op)
        elif op['op'] == 'constant' and not clear['constants']:
          keep.append(op)
        elif op['op'] in ('interactive', 'hook'):
          keep.append(op)
        elif op['op'] == 'unlock' and 'ok' in res:
          collect(op['body'], res['ok']['body'])
    collect(ops[:k], out['out'][:k])
    fresh = gindom.run_impl({'dom': 'gin', 'ops': keep + ops[k + 1:]})
    out['fresh_tail'] = fresh['out'][len(keep):]
  return out


def oracle(case, impl):
  if case.get('_kind') == 'singleton_retry':
    f = impl['facts']
    if case['fail'] == 'print_fails':
      if not f.get('clear_finished') or not f.get('pristine'):
        return f'clear_config() after a failed attempt to print the configuration ({case["key"]}): {f}'
      return None
    if 'error' in f or f.get('first') != 'failed' or f.get('second') != {'url': 'sqlite://', 'port': 1} or not f.get('same_object'):
      return (f'a singleton whose constructor failed ({case["fail"]}), then clear_config={case["clear"]}, then a working '
              f'configuration under the same scope name {case["key"]!r}: {f}')
    return None
  if case.get('_kind') == 'finalizer':
    f = impl['facts']
    shown = {k: v for k, v in case.items() if k not in ('dom', 'ops', '_kind')}
    if 'error' in f:
      return f'finalizer case {shown}: {f["error"]}'
    if not f['alive_before'] or not f['record_before']:
      return None      # the set-up did not get there: nothing to judge
    if f['operative'] != '':
      return f'finalizer case {shown}: operative record after clear_config: {f["operative"]!r}'
    if f['config'] != '' or f['locked'] or f['cached']:
      return f'finalizer case {shown}: not pristine after clear_config: {f}'
    if 'w = 1' not in f['operative_after_probe'] or 'release' in f['operative_after_probe'] or f['probe'] != 1:
      return f'finalizer case {shown}: a call after clear_config records {f["operative_after_probe"]!r}'
    return None
  why = refmodel.check_history(case, impl, {'locked', 'config', 'constants', 'registry', 'clear'})
  if why:
    return why
  ntail = case.get('_ntail')
  if not ntail:
    return None
  ops, outs = case['ops'], impl['out']
  k = len(ops) - ntail - 1
  if 'ok' not in outs[k]:
    return f'op {k}: clear_config failed: {outs[k]}'
  tail_ops, tail = ops[k + 1:], outs[k + 1:]
  for j, (op, res) in enumerate(zip(tail_ops, tail)):
    if op['op'] == 'operative' and j < 5 and res != {'ok': []}:
      return f'operative record not empty after clear: {res}'
    if op['op'] == 'singleton' and j == 5 and 'err' not in res:
      return f'singleton survived clear_config: {res}'
  # indistinguishable from a fresh process with the same registrations
  for j, (op, a, b) in enumerate(zip(tail_ops, tail, impl['fresh_tail'])):
    a2, b2 = gindom.strip(a), gindom.strip(b)
    if op['op'] == 'singleton':
      a2 = {'ok': 'obj'} if 'ok' in a2 else a2
      b2 = {'ok': 'obj'} if 'ok' in b2 else b2
    if op['op'] in ('ecall', 'log'):
      # per-probe call indices count calls made before the clear as well (harness counters)
      import re as _re
      a2 = json.loads(_re.sub(r'\{"res": \["([^"]*)", \d+\]\}', r'{"res": ["\1"]}', json.dumps(a2)))
      b2 = json.loads(_re.sub(r'\{"res": \["([^"]*)", \d+\]\}', r'{"res": ["\1"]}', json.dumps(b2)))
    if a2 != b2:
      shown = {kk: vv for kk, vv in op.items() if kk != 'sig'}
      return f'post-clear op {j} {shown}: after clear {a2}, fresh interpreter {b2}'
  return None


def nontrivial(case, impl):
  if case.get('_kind') == 'singleton_retry':
    return True
  if case.get('_kind') == 'finalizer':
    return bool(impl['facts'].get('released'))
  n = 0
  for op, res in zip(case['ops'], impl['out']):
    if op['op'] == 'clear':
      return n >= 3
    if op['op'] in ('bind', 'finalize', 'call', 'constant', 'singleton', 'unlock') and 'ok' in res:
      n += 1
  return False


def shrink(case):
  if case.get('_kind') in TABLE_KINDS:
    return
  ops = case['ops']
  ntail = case.get('_ntail', 0)
  for k in range(len(ops) - ntail - 2, -1, -1):
    if ops[k]['op'] == 'register' and not ops[k]['name'].startswith('late'):
      continue
    if ops[k]['op'] in ('constant', 'interactive'):
      continue  # the tail's %constant binding is generated against these
    yield {'dom': 'gin', 'ops': ops[:k] + ops[k + 1:], '_ntail': ntail}


def classify(case, impl, model, why_oracle, why_model, findings):
  return None
