"""C13 — registration is transparent to the registered function or class."""
import abc
import collections
import inspect
import pickle

import core
import gen_gin as G
import gindom
import refmodel

ID = 'C13'
DOMAIN = 'gin/register'
PROPS_FILES = ['Gin/Props/C13.lean']
ANCHOR_FILES = ['config.py']
RULE = ('(a) every callable / class shape of a fixed table {function, functools.wraps-decorated function, builtin, two equal-but-distinct callable objects under one name, class with __init__, __new__, both, neither, '
        'custom metaclass, __slots__, namedtuple, abstract-base subclass, class with a registered method} x registration API '
        '{configurable, register, external_configurable} x {unscoped, scoped access}: direct call vs registry call, type(), '
        'isinstance, issubclass, __name__/__doc__/__module__, inspect.signature, pickle round trip, class __dict__ before '
        'and after (enumerated completely on every run); (b) histories of valid and rejected registrations (invalid name, '
        'invalid module, a different object under an existing full name, unknown allow/deny entries, both lists, wrong list '
        'type, re-registration inside / outside interactive mode and after the interactive_mode() block ended) with the '
        'registry observed after each; (c) programs over {enter / exit_interactive_mode, interactive_mode() blocks (nested, '
        'left by an exception), attempts to re-register a taken name}; (d) a module-level function / class defined anew under '
        'its qualified name with other parameter names after Gin looked at the first, registered with a list naming an old / '
        'a new parameter (enumerated completely). non-trivial = a rejected registration after an accepted one, or a class shape with '
        'constructor logic; distinct = canonical case')
TRUSTED_BASE = ['Lean 4.33 kernel', 'axioms ⊆ {propext, Classical.choice, Quot.sound}', 'JSON glue (Gin/Drv)',
                'harness props/c13.py / gindom.py', 'metaclass / type() creation, functools.wraps, pickle are CPython\'s']
ASSUMPTIONS = ['the object-model facts (instance class, pickling, metadata) are tied by running the real code only; the model '
               'carries the registration state machine and the decision table']
EXPLANATION = ('Lean theorems about State.register (rejections are atomic, re-registration only in interactive mode, the '
               'instance-class decision table) + exhaustive run of the shape x API table on the real code + differential '
               'run of registration histories.')


class Meta(type):
  def __call__(cls, *a, **k):
    obj = super().__call__(*a, **k)
    obj.via_meta = True
    return obj


class _Refetch:
  """stands for `inst.meth`: `.get()` fetches the attribute anew"""

  def __init__(self, inst):
    self.inst = inst

  def get(self):
    return self.inst.meth


def shapes():
  def fn(a, b=2):
    """doc fn"""
    return ('fn', a, b)

  class WithInit:
    """doc init"""

    def __init__(self, a, b=2):
      self.a, self.b = a, b

    def __eq__(self, o):
      return type(o) is type(self) and (o.a, o.b) == (self.a, self.b)

  class WithNew:
    """doc new"""

    def __new__(cls, a, b=2):
      self = super().__new__(cls)
      self.a, self.b = a, b
      return self

  class WithBoth:
    """doc both"""

    def __new__(cls, a, b=2):
      return super().__new__(cls)

    def __init__(self, a, b=2):
      self.a, self.b = a, b

  class Neither:
    """doc neither"""

  class WithMeta(metaclass=Meta):
    """doc meta"""

    def __init__(self, a, b=2):
      self.a, self.b = a, b

  class Slotted:
    """doc slots"""
    __slots__ = ('a', 'b')

    def __init__(self, a, b=2):
      self.a, self.b = a, b

  NT = collections.namedtuple('NT', ['a', 'b'], defaults=[2])

  class Abstract(abc.ABC):
    @abc.abstractmethod
    def run(self):
      pass

  class Concrete(Abstract):
    """doc abc"""

    def __init__(self, a, b=2):
      self.a, self.b = a, b

    def run(self):
      return self.a

  import functools

  def _inner(a, b=2):
    """doc fn"""
    return ('fn', a, b)

  @functools.wraps(_inner)
  def wrapped(*args, **kw):   # an ordinary decorator between gin and the function (carries __wrapped__)
    return _inner(*args, **kw)

  def _shared_init(self, a, b=2):
    self.a, self.b = a, b

  def _shared_new(cls, a, b=2):
    self = object.__new__(cls)
    self.a, self.b = a, b
    return self

  class InitAlias:
    """doc init alias"""
    __init__ = _shared_init       # the constructor is another function under the name __init__

  class NewAlias:
    """doc new alias"""
    __new__ = _shared_new

  class Call:
    """doc call"""

    def __call__(self, a, b=2):
      return ('fn', a, b)

    def meth(self, a, b=2):
      return ('fn', a, b)

  class FalsyCall(Call):
    """doc falsy"""
    __name__ = 'c13_falsy_callable'     # registered in the direct form `gin.register(obj)`: the name comes from the object

    def __len__(self):
      return 0

  class WithNewClsParam:
    """doc new_cls"""

    def __init__(self, a, b=2, new_cls=None):     # `new_cls` is also how Gin's metaclass shim calls its first parameter
      self.a, self.b, self.new_cls = a, b, new_cls

  return {'newcls_param': WithNewClsParam, 'fn': fn, 'wrapped_fn': wrapped, 'builtin': max, 'init': WithInit, 'new': WithNew, 'both': WithBoth, 'neither': Neither,
          'meta': WithMeta, 'slots': Slotted, 'namedtuple': NT, 'abc': Concrete, 'init_alias': InitAlias, 'new_alias': NewAlias,
          'callable_obj': Call(), 'falsy_callable': FalsyCall(), 'bound_method': Call().meth,
          # every attribute access makes a new bound-method object, equal to but not identical with the registered one
          'bound_method_refetched': _Refetch(Call())}


FN_LIKE = ('fn', 'wrapped_fn', 'callable_obj', 'falsy_callable', 'bound_method', 'bound_method_refetched')


PICKLE_SRC = '''
import collections
class PInit:
  """doc pinit"""
  def __init__(self, a, b=2):
    self.a, self.b = a, b
class PNew:
  """doc pnew"""
  def __new__(cls, a, b=2):
    self = super().__new__(cls)
    self.a, self.b = a, b
    return self
  def __getnewargs__(self):
    return (self.a, self.b)
PNT = collections.namedtuple('PNT', ['a', 'b'], defaults=[2])
'''


def pickle_classes():
  """Fresh importable (hence picklable) classes per case: @configurable rewires a class in place."""
  import sys
  import types
  mod = types.ModuleType('c13_pickle_mod')
  sys.modules['c13_pickle_mod'] = mod
  exec(PICKLE_SRC, mod.__dict__)  # pylint: disable=exec-used
  return mod


def run_rename_case(case):
  """A class whose method was registered on its own is registered; afterwards a *function* is registered under the name
  the method used to have: each receives its own bindings, through every way of reaching it."""
  gin = core.fresh_gin()
  g = {'gin': gin, '__name__': 'rn'}
  exec('class Cls:\n  @gin.register\n  def run(self, x=0):\n    return ("method", x)\n'  # pylint: disable=exec-used
       'def run(x=0):\n  return ("fn", x)\n', g)
  facts = {}
  try:
    if case['api'] == 'external':
      gin.external_configurable(g['Cls'])
      c = gin.external_configurable(g['run'])
    else:
      gin.register(g['Cls'])
      gin.register(g['run'])
      c = gin.get_configurable(g['run'])
    gin.bind_parameter('rn.Cls.run.x', 5)
    gin.bind_parameter('rn.run.x', 7)
    got = [c(), gin.get_configurable(g['run'])(), gin.get_configurable(g['Cls'])().run(), gin.get_configurable('rn.run')()]
    facts['got'] = [list(x) for x in got]
  except Exception as e:  # pylint: disable=broad-except
    facts['error'] = f'{type(e).__name__}: {e}'[:200]
  return facts


def shape_cases():
  out = [{'dom': 'gin', 'kind': 'shape', 'shape': 'rename', 'api': api, 'scoped': False, 'ops': []} for api in ('register', 'external')]
  for shape in list(shapes()) + ['pickle_init', 'pickle_new', 'pickle_nt', 'with_method', 'borrowed_method', 'equal_objects', 'rejected_class']:
    for api in ('configurable', 'register', 'external'):
      for scoped in (False, True):
        out.append({'dom': 'gin', 'kind': 'shape', 'shape': shape, 'api': api, 'scoped': scoped, 'ops': []})
  return out


def gen_history(rng):
  regs = G.gen_registry(rng, rng.randint(1, 2))
  ops = list(regs)
  obj = 50
  interactive = False
  for _ in range(rng.randint(3, 9)):
    r = rng.random()
    obj += 1
    base = G.gen_late_register(rng, obj)
    if rng.random() < 0.3:
      base['_decorated'] = rng.choice([1, 2, 3])   # functools.wraps layers between gin and the function
    if r < 0.15:
      badname = rng.choice(['1bad', '', 'a..b', 'a-b', '.a', 'a.', ' a', 'a b', 'bad\n', 'pkg.bad\n'])
      base.update(name=badname, nameValid=False, _name_arg=badname, _pyname='late%d' % obj)
    elif r < 0.22:
      bm = rng.choice(['bad module', 'bad module', 'mod\n', '\nmod'])
      base.update(module=bm, moduleValid=False, _explicit_module=bm)
    elif r < 0.3:
      # a dotted name: the object's own module is not used, an explicitly given one is - and is validated
      dotted = 'pkg.' + base['name']
      base.update(name=dotted, _name_arg=dotted, _pyname='late%d' % obj)
      rr = rng.random()
      if rr < 0.4:
        bad = rng.choice(['', '9bad', 'bad module', 'a..b'])
        base.update(module=bad, moduleValid=False, _explicit_module=bad)
      elif rr < 0.7:
        base.update(module='xm', _explicit_module='xm', _selector='xm.' + dotted)
      else:
        base.update(module=None, _selector=dotted)
    elif r < 0.45:   # a different object under an existing full name
      tgt = rng.choice(regs)
      base.update(name=tgt['name'], module=tgt['module'], _explicit_module=tgt['module'], _name_arg=tgt['name'],
                  _pymodule=tgt['module'], _selector=tgt['_selector'])
    elif r < 0.55:
      base.update(allow=['nope'], deny=[])
    elif r < 0.63:
      names = [p[0] for p in base['sig']['pos']]
      if names:
        base.update(allow=[names[0]], deny=[names[0]])
    elif r < 0.7:
      names = [p[0] for p in base['sig']['pos']]
      if names:
        if rng.random() < 0.5:
          base.update(allow=[names[0]], listTypesOk=False, _allow_arg=names[0])
        else:   # a one-shot iterator is not a list or tuple either
          base.update(deny=[names[0]], listTypesOk=False, _deny_iter=True)
    elif r < 0.85:
      interactive = not interactive
      ops.append({'op': 'interactive', 'on': interactive})
      ops.append({'op': 'registry'})
      continue
    ops.append(base)
    ops.append({'op': 'registry'})
  ops.append({'op': 'registry'})
  return {'dom': 'gin', 'kind': 'history', 'ops': ops}


# ---------------------------------------------------------------- interactive mode as an ordering of operations

def gen_imode_steps(rng, depth, budget):
  """Steps over {enter_interactive_mode, exit_interactive_mode, an interactive_mode() block (nested, left normally or by
  an exception), an attempt to register a different object under a taken full name}."""
  steps = []
  for _ in range(rng.randint(1, 4)):
    if budget[0] <= 0:
      break
    budget[0] -= 1
    r = rng.random()
    if r < 0.4:
      steps.append(['attempt', rng.randrange(2), rng.choice(['register', 'external', 'configurable'])])
    elif r < 0.55:
      steps.append(['enter'])
    elif r < 0.65:
      steps.append(['exit'])
    elif depth < 3:
      steps.append(['block', gen_imode_steps(rng, depth + 1, budget), rng.random() < 0.25])
      if rng.random() < 0.7:    # what holds right after the block was left is what the property speaks about
        steps.append(['attempt', rng.randrange(2), rng.choice(['register', 'external', 'configurable'])])
  return steps


def gen_imode(rng):
  r = rng.random()
  att = lambda: ['attempt', rng.randrange(2), rng.choice(['register', 'external', 'configurable'])]
  if r < 0.15:     # the mode switched on by hand earlier, then a block
    prog = [['enter'], ['block', [att()] if rng.random() < 0.7 else [], rng.random() < 0.3], att(), ['exit'], att()]
  elif r < 0.3:    # a block inside a block: the inner one ends the mode
    prog = [['block', [['block', [att()] if rng.random() < 0.5 else [], rng.random() < 0.3], att()], False], att()]
  else:
    prog = gen_imode_steps(rng, 0, [rng.randint(4, 12)])
  return {'dom': 'gin', 'kind': 'imode', 'prog': prog, 'ops': []}


class _Leave(Exception):
  pass


def run_imode(case):
  gin = core.fresh_gin()
  made = [0]
  obs = []

  def make(serial):
    def thing(a=1):
      return [serial, a]
    return thing

  def reg(api, name, fn):
    if api == 'register':
      gin.register(name, module='im')(fn)
    elif api == 'external':
      gin.external_configurable(fn, name=name, module='im')
    else:
      gin.configurable(name, module='im')(fn)

  names = ['thing', 'other']
  for n in names:
    reg('register', n, make(made[0]))
    made[0] += 1

  def held():
    out = []
    for n in names:
      try:
        out.append(gin.get_configurable('im.' + n)()[0])
      except Exception as e:  # pylint: disable=broad-except
        out.append(f'raised {type(e).__name__}')
    return out

  def run(steps):
    for st in steps:
      if st[0] == 'enter':
        gin.enter_interactive_mode()
      elif st[0] == 'exit':
        gin.exit_interactive_mode()
      elif st[0] == 'attempt':
        serial = made[0]
        made[0] += 1
        try:
          reg(st[2], names[st[1]], make(serial))
          res = 'accepted'
        except ValueError:
          res = 'rejected'
        except Exception as e:  # pylint: disable=broad-except
          res = f'raised {type(e).__name__}'
        obs.append([res, held()])
      else:
        try:
          with gin.config.interactive_mode():
            run(st[1])
            if st[2]:
              raise _Leave()
        except _Leave:
          pass
  try:
    run(case['prog'])
  except Exception as e:  # pylint: disable=broad-except
    return {'error': f'{type(e).__name__}: {e}'[:200], 'obs': obs}
  return {'obs': obs}


def imode_expected(prog):
  """The property's reading: the mode is on after enter_interactive_mode() and inside an interactive_mode() block; it is
  off after exit_interactive_mode() and as soon as a block was left, whichever way. A different object under a taken
  name is accepted exactly while the mode is on; a rejected attempt leaves the holder of the name in place."""
  state = {'on': False, 'held': [0, 1], 'made': 2}
  want = []

  def run(steps):
    for st in steps:
      if st[0] == 'enter':
        state['on'] = True
      elif st[0] == 'exit':
        state['on'] = False
      elif st[0] == 'attempt':
        serial = state['made']
        state['made'] += 1
        if state['on']:
          state['held'][st[1]] = serial
        want.append(['accepted' if state['on'] else 'rejected', list(state['held'])])
      else:
        state['on'] = True
        run(st[1])
        state['on'] = False
  run(prog)
  return want


# ---------------------------------------------------------------- a definition replaced under its qualified name

REDEF_SRC = {
    'fn': 'def step({p}=1, shared=0):\n  return ("{v}", {p}, shared)\n',
    'init': 'class Model:\n  def __init__(self, {p}=1, shared=0):\n    self.got = ("{v}", {p}, shared)\n',
    'new': ('class Model:\n  def __new__(cls, {p}=1, shared=0):\n    self = object.__new__(cls)\n'
            '    self.got = ("{v}", {p}, shared)\n    return self\n'),
}


def redefine_cases():
  """A module-level function / class is looked at by Gin (registered with a list, bound, or called), then defined anew
  under the same module and qualified name with another parameter name (a notebook cell run again, a module reloaded);
  the new object is registered with a list that names a parameter of the old / of the new definition."""
  out = []
  for obj in ('fn', 'init', 'new'):
    for api in ('configurable', 'register', 'external'):
      for which in ('allow', 'deny'):
        for seen_by in ('list', 'bind', 'call'):
          for names in (('alpha', 'beta'), ('width', 'depth')):
            for listed in ('old', 'new'):
              out.append({'dom': 'gin', 'kind': 'redefine', 'obj': obj, 'api': api, 'which': which, 'seen_by': seen_by,
                          'names': list(names), 'listed': listed, 'same_name': False, 'ops': []})
        # inside interactive mode, under the very name of the first definition: a refused attempt keeps the first
        out.append({'dom': 'gin', 'kind': 'redefine', 'obj': obj, 'api': api, 'which': which, 'seen_by': 'list',
                    'names': ['alpha', 'beta'], 'listed': 'old', 'same_name': True, 'ops': []})
  return out


def run_redefine(case):
  gin = core.fresh_gin()
  old, new = case['names']
  leaf = 'step' if case['obj'] == 'fn' else 'Model'
  g = {'__name__': 'c13_redef_mod'}

  def reg(o, name, **kw):
    if case['api'] == 'configurable':
      return gin.configurable(name, module='rd', **kw)(o)
    if case['api'] == 'register':
      gin.register(name, module='rd', **kw)(o)
      return gin.get_configurable(o)
    return gin.external_configurable(o, name=name, module='rd', **kw)

  def got(r):
    return list(r) if case['obj'] == 'fn' else list(r.got)
  facts = {}
  try:
    exec(REDEF_SRC[case['obj']].format(p=old, v='v1'), g)  # pylint: disable=exec-used
    first = g[leaf]
    kw = {('allowlist' if case['which'] == 'allow' else 'denylist'): [old]} if case['seen_by'] == 'list' else {}
    c1 = reg(first, 'first', **kw)
    if case['seen_by'] == 'bind':
      gin.bind_parameter('rd.first.' + old, 5)
    if case['seen_by'] in ('bind', 'call'):
      facts['first_works'] = got(c1()) == ['v1', 5 if case['seen_by'] == 'bind' else 1, 0]
  except Exception as e:  # pylint: disable=broad-except
    return {'error': f'first definition: {type(e).__name__}: {e}'[:200]}
  exec(REDEF_SRC[case['obj']].format(p=new, v='v2'), g)  # pylint: disable=exec-used
  second = g[leaf]
  assert second is not first and second.__qualname__ == first.__qualname__ and second.__module__ == first.__module__
  listed = old if case['listed'] == 'old' else new
  name2 = 'first' if case['same_name'] else 'second'
  try:
    if case['same_name']:
      with gin.config.interactive_mode():
        c2 = reg(second, name2, **{('allowlist' if case['which'] == 'allow' else 'denylist'): [listed]})
    else:
      c2 = reg(second, name2, **{('allowlist' if case['which'] == 'allow' else 'denylist'): [listed]})
    facts['second'] = 'accepted'
  except ValueError:
    facts['second'] = 'rejected'
  except Exception as e:  # pylint: disable=broad-except
    facts['second'] = f'raised {type(e).__name__}: {e}'[:160]
  try:
    gin.get_configurable('rd.second')
    facts['second_registered'] = True
  except ValueError:
    facts['second_registered'] = False
  try:
    facts['first_holder'] = got(gin.get_configurable('rd.first')())[0]
  except Exception as e:  # pylint: disable=broad-except
    facts['first_holder'] = f'raised {type(e).__name__}'
  if facts['second'] == 'accepted' and case['listed'] == 'new':
    # the new definition's own parameter is configurable (allowlisted) or closed (denylisted); the shared one the reverse
    res = {}
    for pname in (new, 'shared'):
      try:
        gin.bind_parameter(f'rd.{name2}.{pname}', 7)
        res[pname] = 'bound'
      except ValueError:
        res[pname] = 'refused'
      except Exception as e:  # pylint: disable=broad-except
        res[pname] = f'raised {type(e).__name__}'
    facts['bindable'] = res
    try:
      facts['delivered'] = got(c2())
      facts['caller_wins'] = got(c2(3, 4))     # positional values go to the new definition's parameters
    except Exception as e:  # pylint: disable=broad-except
      facts['delivered'] = f'raised {type(e).__name__}: {e}'[:160]
  return facts


def redefine_oracle(case, f):
  old, new = case['names']
  tag = (f'redefine/{case["obj"]}/{case["api"]}/{case["which"]}list names {case["listed"]} parameter/'
         f'first seen by {case["seen_by"]}{"/same name" if case["same_name"] else ""}')
  if 'error' in f:
    return f'{tag}: {f["error"]}'
  if f.get('first_works') is False:
    return f'{tag}: the first definition did not receive its binding'
  if case['listed'] == 'old':
    # `old` is not a parameter of the object being registered
    if f['second'] != 'rejected':
      return (f'{tag}: a list naming {old!r} was {f["second"]} for a definition whose parameters are ({new}, shared); '
              f'registered: {f["second_registered"]}')
    if f['second_registered']:
      return f'{tag}: the rejected registration left rd.second registered'
    if f['first_holder'] != 'v1':
      return f'{tag}: after the rejected registration rd.first is held by {f["first_holder"]}'
    return None
  if f['second'] != 'accepted':
    return f'{tag}: a list naming {new!r}, a parameter of the definition being registered, was {f["second"]}'
  want_bind = ({new: 'bound', 'shared': 'refused'} if case['which'] == 'allow' else {new: 'refused', 'shared': 'bound'})
  if f.get('bindable') != want_bind:
    return f'{tag}: bind_parameter on ({new}, shared) gave {f.get("bindable")}, the list implies {want_bind}'
  want = ['v2', 7, 0] if case['which'] == 'allow' else ['v2', 1, 7]
  if f.get('delivered') != want:
    return f'{tag}: the registry version delivered {f.get("delivered")}, expected {want}'
  if f.get('caller_wins') != ['v2', 3, 4]:
    return f'{tag}: called with (3, 4) the registry version delivered {f.get("caller_wins")}'
  return None


def gen_cases(rng, tier, boost=1):
  yield from shape_cases()
  yield from redefine_cases()
  for _ in range((150 if tier == 'quick' else 3000) * boost):
    yield gen_imode(rng)
  for _ in range((300 if tier == 'quick' else 8000) * boost):
    yield gen_history(rng)


def run_shape(case):
  gin = core.fresh_gin()
  shape, api, scoped = case['shape'], case['api'], case['scoped']
  table = shapes()
  facts = {}
  if shape == 'rename':
    return run_rename_case(case)
  if shape == 'equal_objects':
    return equal_objects(gin, api)
  if shape == 'rejected_class':
    return rejected_class(gin, api)
  if shape.startswith('pickle'):
    mod = pickle_classes()
    orig = {'pickle_init': mod.PInit, 'pickle_new': mod.PNew, 'pickle_nt': mod.PNT}[shape]
    facts['original_pickles'] = pickle.loads(pickle.dumps(orig(1))).b == 2
  elif shape == 'with_method':
    g = {'gin': gin, '__name__': 'wm'}
    exec('class WM:\n  """doc wm"""\n  def __init__(self, a, b=2):\n    self.a, self.b = a, b\n'  # pylint: disable=exec-used
         '  @gin.register\n  def meth(self, k=1):\n    return k\n', g)
    orig = g['WM']
  elif shape == 'borrowed_method':
    # Net holds, under the function's own name, a Gin-registered method that belongs to another class whose
    # name ends with Net's: it is not a method *of Net*, so Net is built exactly (no dynamic subclass)
    g = {'gin': gin, '__name__': 'bm'}
    exec('class ResNet:\n  """doc resnet"""\n  def __init__(self, a, b=2):\n    self.a, self.b = a, b\n'  # pylint: disable=exec-used
         '  @gin.register\n  def forward(self, k=1):\n    return k\n'
         'class Net:\n  """doc net"""\n  def __init__(self, a, b=2):\n    self.a, self.b = a, b\n'
         '  forward = ResNet.forward\n', g)
    orig = g['Net']
  else:
    orig = table[shape]
  refetch = orig if isinstance(orig, _Refetch) else None
  if refetch is not None:
    orig = refetch.get()
  is_class = inspect.isclass(orig)
  before = dict(vars(orig)) if is_class else None
  name = 'c13_' + shape
  try:
    if shape == 'falsy_callable':
      # the direct forms (the object itself is the argument; name and module are taken from it)
      if api == 'configurable':
        returned = gin.configurable(orig)
      elif api == 'register':
        r = gin.register(orig)
        facts['register_returns_original'] = r is orig
        returned = gin.get_configurable(orig)
      else:
        returned = gin.external_configurable(orig)
    elif api == 'configurable':
      if not is_class or shape in ('namedtuple', 'pickle_nt', 'builtin'):
        if shape == 'builtin':
          returned = gin.external_configurable(orig, name=name, module='c13')
        else:
          returned = gin.configurable(name, module='c13')(orig)
      else:
        returned = gin.configurable(name, module='c13')(orig)
    elif api == 'register':
      r = gin.register(name, module='c13')(orig)
      facts['register_returns_original'] = r is orig
      returned = gin.get_configurable(refetch.get() if refetch else orig)
    else:
      returned = gin.external_configurable(orig, name=name, module='c13')
  except Exception as e:  # pylint: disable=broad-except
    return {'error': f'{type(e).__name__}: {e}'[:200]}
  param = 'b' if shape not in ('builtin', 'neither') else None
  try:
    if param:
      gin.bind_parameter(f'c13.{name}.{param}', 99)
      gin.bind_parameter(f'sc/c13.{name}.{param}', 77)
    cfgd = gin.get_configurable(f'sc/c13.{name}') if scoped else (
        returned if api != 'register' else gin.get_configurable(refetch.get() if refetch else orig))
    if refetch is not None:
      # the registry's version is reached through the original object, however often it is fetched anew
      facts['reached_through_object'] = dict(gin.get_bindings(refetch.get())) == {param: 99} and \
          callable(gin.get_configurable(refetch.get()))
  except Exception as e:  # pylint: disable=broad-except
    return dict(facts, error=f'the registered object cannot be configured / fetched by name: {type(e).__name__}: {e}'[:200])
  want_b = 77 if scoped else 99
  args = (1,) if shape not in ('builtin', 'neither') else ((3, 5) if shape == 'builtin' else ())
  # direct calls to the original receive no injected values (register / external_configurable)
  if api in ('register', 'external') or shape == 'builtin':
    try:
      d = orig(*args)
      facts['direct_untouched'] = ((getattr(d, 'b', None) == 2) if is_class and param
                                   else (d == ('fn', 1, 2) if shape in FN_LIKE else True))
    except Exception as e:  # pylint: disable=broad-except
      facts['direct_untouched'] = f'raised {type(e).__name__}'
  try:
    c = cfgd(*args)
  except Exception as e:  # pylint: disable=broad-except
    return dict(facts, error=f'registry call: {type(e).__name__}: {e}'[:200])
  if shape in FN_LIKE:
    facts['injected'] = c == ('fn', 1, want_b)
  elif param:
    facts['injected'] = getattr(c, 'b', None) == want_b
  if param and shape != 'wrapped_fn':
    # a value the caller passes positionally for the bound parameter wins (the names of positional parameters are the
    # callable's own: no `self` for a bound method or a callable object). Behind an ordinary decorator the names of
    # positional parameters are not visible: see DESIGN, findings.
    try:
      c2 = cfgd(1, 5)
      facts['caller_wins'] = (c2 == ('fn', 1, 5)) if shape in FN_LIKE else (getattr(c2, 'b', None) == 5)
    except Exception as e:  # pylint: disable=broad-except
      facts['caller_wins'] = f'raised {type(e).__name__}: {e}'[:120]
  if shape == 'newcls_param':
    try:
      gin.bind_parameter(f'c13.{name}.new_cls', 'bound')
      c3, c4 = cfgd(1), cfgd(1, new_cls='passed')
      facts['caller_wins'] = ((c3.new_cls, c4.new_cls) == ('bound', 'passed')) or \
          f'new_cls bound / passed by the caller arrived as {c3.new_cls!r} / {c4.new_cls!r}'
    except Exception as e:  # pylint: disable=broad-except
      facts['caller_wins'] = f'a constructor parameter called new_cls: raised {type(e).__name__}: {e}'[:160]
  if shape in ('fn', 'init') and scoped:
    # the name registered again inside interactive mode: a scoped lookup made before must not stand for it afterwards
    try:
      with gin.config.interactive_mode():
        if shape == 'fn':
          def fn(a, b=2):      # pylint: disable=function-redefined
            return ('fn2', a, b)
          gin.external_configurable(fn, name=name, module='c13')
          again = gin.get_configurable(f'sc/c13.{name}')(1)
          facts['scoped_lookup_follows'] = again == ('fn2', 1, want_b) or f'the scoped lookup still runs the old function: {again}'
        else:
          class WithInit2:
            def __init__(self, a, b=2):
              self.a, self.b, self.v2 = a, b, True
          gin.external_configurable(WithInit2, name=name, module='c13')
          again = gin.get_configurable(f'sc/c13.{name}')(1)
          facts['scoped_lookup_follows'] = (getattr(again, 'v2', False) and again.b == want_b) or \
              f'the scoped lookup still builds the old class: {type(again).__name__}'
    except Exception as e:  # pylint: disable=broad-except
      facts['scoped_lookup_follows'] = f'raised {type(e).__name__}: {e}'[:160]
  if is_class:
    has_overrides = shape == 'with_method' and api in ('register', 'external')
    facts['isinstance'] = isinstance(c, orig)
    facts['exact_type'] = type(c) is orig
    facts['exact_type_expected'] = (not has_overrides) if not (scoped and shape == 'with_method') else False
    facts['issubclass'] = issubclass(cfgd, orig) if inspect.isclass(cfgd) else None
    meta_of = cfgd if inspect.isclass(cfgd) else orig
    facts['name_doc_module'] = (meta_of.__name__ == orig.__name__ and meta_of.__doc__ == orig.__doc__ and
                                meta_of.__module__ == orig.__module__ and
                                # the probe classes are local to a function: their qualified name is not their name
                                getattr(meta_of, '__qualname__', None) == getattr(orig, '__qualname__', None))
    if api in ('register', 'external'):
      after = dict(vars(orig))
      facts['class_dict_unchanged'] = set(before) == set(after) and all(before[k] is after[k] for k in before)
    if shape.startswith('pickle') and type(c) is orig:
      try:
        facts['pickles'] = pickle.loads(pickle.dumps(c)).b == want_b
      except Exception as e:  # pylint: disable=broad-except
        facts['pickles'] = f'{type(e).__name__}'
    if shape == 'meta':
      facts['meta_ran'] = getattr(c, 'via_meta', False)
    if shape == 'with_method' and api in ('register', 'external'):
      # the registered method, reached through the original function object, is the configurable `<class>.meth`
      try:
        gin.bind_parameter(f'c13.{name}.meth.k', 5)
        gin.bind_parameter(f'sc/c13.{name}.meth.k', 6)
        got = dict(gin.get_bindings(orig.meth))
        with gin.config_scope('sc'):
          got_sc = dict(gin.get_bindings(orig.meth))
        handle = gin.get_configurable(orig.meth)
        facts['method_via_function_object'] = (got == {'k': 5} and got_sc == {'k': 6} and callable(handle)) or \
            f'bindings {got} / {got_sc}'
      except Exception as e:  # pylint: disable=broad-except
        facts['method_via_function_object'] = f'raised {type(e).__name__}: {e}'[:120]
  else:
    if api == 'configurable' and shape == 'fn':
      facts['name_doc_sig'] = (returned.__name__ == orig.__name__ and returned.__doc__ == orig.__doc__ and
                               str(inspect.signature(returned)) == str(inspect.signature(orig)))
  return facts


def equal_objects(gin, api):
  """Two distinct callables that compare equal: the second is still "a different object under an existing
  full name" and must be rejected, leaving the first registered."""
  import dataclasses

  @dataclasses.dataclass(frozen=True)
  class Scale:
    factor: int

    def __call__(self, x=0):
      return self.factor * x
  a, b = Scale(3), Scale(3)
  assert a == b and a is not b
  reg = {'configurable': lambda o: gin.external_configurable(o, name='scale', module='c13'),
         'register': lambda o: gin.register('scale', module='c13')(o),
         'external': lambda o: gin.external_configurable(o, name='scale', module='c13')}[api]
  facts = {}
  try:
    reg(a)
  except Exception as e:  # pylint: disable=broad-except
    return {'error': f'first registration: {type(e).__name__}: {e}'[:200]}
  try:
    reg(b)
    facts['equal_but_distinct_rejected'] = 'accepted'
  except ValueError:
    facts['equal_but_distinct_rejected'] = True
  except Exception as e:  # pylint: disable=broad-except
    facts['equal_but_distinct_rejected'] = f'raised {type(e).__name__}'
  facts['first_still_registered'] = gin.config._REGISTRY['c13.scale'].wrapped is a  # pylint: disable=protected-access
  return facts


def rejected_class(gin, api):
  """A class offered under a full name a different object holds: rejected, and the class is exactly what it was (its
  constructor not replaced, its registered method still registered as before)."""
  g = {'gin': gin, '__name__': 'rc'}
  exec('def holder(size=1):\n  return size\n'  # pylint: disable=exec-used
       'class Box:\n  """doc box"""\n  def __init__(self, size=1):\n    self.size = size\n'
       '  @gin.register\n  def sharpen(self, k=1):\n    return k\n', g)
  gin.external_configurable(g['holder'], name='holder', module='m')
  gin.bind_parameter('m.holder.size', 99)
  Box = g['Box']
  before = dict(vars(Box))
  names_before = sorted(k for k, _ in gin.config._REGISTRY.items())  # pylint: disable=protected-access
  facts = {}
  try:
    if api == 'configurable':
      gin.configurable('holder', module='m')(Box)
    elif api == 'register':
      gin.register('holder', module='m')(Box)
    else:
      gin.external_configurable(Box, name='holder', module='m')
    facts['duplicate_rejected'] = 'accepted'
  except ValueError:
    facts['duplicate_rejected'] = True
  except Exception as e:  # pylint: disable=broad-except
    facts['duplicate_rejected'] = f'raised {type(e).__name__}'
  after = dict(vars(Box))
  facts['class_dict_unchanged'] = set(before) == set(after) and all(before[k] is after[k] for k in before)
  facts['direct_untouched'] = Box().size == 1
  names_after = sorted(k for k, _ in gin.config._REGISTRY.items())  # pylint: disable=protected-access
  facts['registry_unchanged'] = names_after == names_before or f'{names_before} -> {names_after}'
  facts['first_still_registered'] = gin.config._REGISTRY['m.holder'].wrapped is g['holder']  # pylint: disable=protected-access
  return facts


def run_impl(case):
  if case['kind'] == 'shape':
    return {'out': [], 'facts': run_shape(case)}
  if case['kind'] == 'imode':
    return {'out': [], 'facts': run_imode(case)}
  if case['kind'] == 'redefine':
    return {'out': [], 'facts': run_redefine(case)}
  out = gindom.run_impl(case)
  # interactive_mode() as a block ends when the block exits
  gin = core.fresh_gin()
  with gin.config.interactive_mode():
    inside = gin.config._INTERACTIVE_MODE  # pylint: disable=protected-access
  out['interactive_block'] = [bool(inside), bool(gin.config._INTERACTIVE_MODE)]  # pylint: disable=protected-access
  try:
    with gin.config.interactive_mode():
      raise KeyError('leave the block through an exception')
  except KeyError:
    pass
  out['interactive_block'].append(bool(gin.config._INTERACTIVE_MODE))  # pylint: disable=protected-access
  return out


def to_driver(case, impl):
  return gindom.to_driver(case, impl)


def compare(case, impl, model):
  if case['kind'] != 'history':
    return None
  return gindom.compare(case, impl, model)


def oracle(case, impl):
  if case['kind'] == 'history':
    if impl.get('interactive_block') != [True, False, False]:
      return f'interactive_mode() block: inside / after normal exit / after exit by exception = {impl.get("interactive_block")}'
    return refmodel.check_history(case, impl, {'register', 'registry', 'interactive'})
  f = impl['facts']
  if case['kind'] == 'redefine':
    return redefine_oracle(case, f)
  if case['kind'] == 'imode':
    want = imode_expected(case['prog'])
    if 'error' in f:
      return f'imode {case["prog"]}: {f["error"]}'
    for k, (a, b) in enumerate(zip(f['obs'], want)):
      if a != b:
        return (f'imode {case["prog"]}: attempt #{k} to register a different object under a taken name [outcome, '
                f'holders of im.thing / im.other]: {a}; interactive mode (ending with its block) implies {b}')
    if len(f['obs']) != len(want):
      return f'imode {case["prog"]}: {len(f["obs"])} attempts observed, {len(want)} expected'
    return None
  tag = f'{case["shape"]}/{case["api"]}/{"scoped" if case["scoped"] else "unscoped"}'
  if 'error' in f:
    return f'{tag}: {f["error"]}'
  if case['shape'] == 'rename':
    want = [['fn', 7], ['fn', 7], ['method', 5], ['fn', 7]]
    if f.get('got') != want:
      return (f'{tag}: a function registered under the former name of a method (wrapper, by object, the method through its '
              f'class, by name) delivered {f.get("got")}, their own bindings imply {want}')
    return None
  for k in ('register_returns_original', 'direct_untouched', 'injected', 'isinstance', 'issubclass', 'name_doc_module',
            'class_dict_unchanged', 'pickles', 'meta_ran', 'name_doc_sig', 'equal_but_distinct_rejected',
            'method_via_function_object', 'duplicate_rejected', 'registry_unchanged',
            'first_still_registered', 'caller_wins', 'reached_through_object', 'scoped_lookup_follows'):
    if k in f and f[k] is not True and f[k] is not None:
      return f'{tag}: {k} = {f[k]}'
  if 'exact_type' in f and f['exact_type_expected'] and not f['exact_type']:
    return f'{tag}: instance is not exactly of the original class although no registered methods need overriding'
  return None


def nontrivial(case, impl):
  if case['kind'] == 'shape':
    return case['shape'] not in ('fn', 'builtin', 'neither')
  if case['kind'] == 'redefine':
    return True
  if case['kind'] == 'imode':
    outcomes = {o[0] for o in impl['facts'].get('obs', [])}
    return {'accepted', 'rejected'} <= outcomes
  seen_ok = False
  for op, res in zip(case['ops'], impl['out']):
    if op['op'] == 'register':
      if 'ok' in res:
        seen_ok = True
      elif seen_ok:
        return True
  return False


def tally(stats, case, impl):
  stats['kind:' + case['kind']] = stats.get('kind:' + case['kind'], 0) + 1
  if case['kind'] == 'history':
    for op, res in zip(case['ops'], impl['out']):
      if op['op'] == 'register':
        k = 'register:' + ('ok' if 'ok' in res else res['err'])
        stats[k] = stats.get(k, 0) + 1


def _imode_shrinks(steps):
  for k in range(len(steps)):
    yield steps[:k] + steps[k + 1:]
    if steps[k][0] == 'block':
      for sub in _imode_shrinks(steps[k][1]):
        yield steps[:k] + [['block', sub, steps[k][2]]] + steps[k + 1:]


def shrink(case):
  if case['kind'] == 'imode':
    for prog in _imode_shrinks(case['prog']):
      yield dict(case, prog=prog)
    return
  if case['kind'] != 'history':
    return
  ops = case['ops']
  for k in range(len(ops) - 1, -1, -1):
    yield dict(case, ops=ops[:k] + ops[k + 1:])


def classify(case, impl, model, why_oracle, why_model, findings):
  return None
