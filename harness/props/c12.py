"""C12 — finalize locks the configuration; unlock_config always restores the lock."""
import gen_gin as G
import refmodel
from gindom import run_impl, to_driver, compare  # noqa: F401

ID = 'C12'
DOMAIN = 'gin/state'
PROPS_FILES = ['Gin/Props/C12.lean']
ANCHOR_FILES = ['config.py']
RULE = ('2-3 registered probes, then a history of 8-25 operations over {finalize, unlock_config block (body of 0-4 ops, '
        'nested up to depth 2, leaving normally or by an exception), bind (valid and invalid), late registration, '
        'clear_config, finalize-hook registration (returning keys in random spellings / None / raising), '
        'config_is_locked and store observations}, plus segments: what finalize rejects sitting inside a container used as a '
        'dict key (tuple / nested tuple / frozenset), and a registered probe registered again (same object, same name, other '
        'lists) on the finalized configuration; non-trivial = the history contains a successful finalize followed by a '
        'rejected mutation, or an unlock block whose body raises while the configuration was locked; distinct = canonical ops')
TRUSTED_BASE = ['Lean 4.33 kernel', 'axioms ⊆ {propext, Classical.choice, Quot.sound}', 'JSON glue (Gin/Drv)',
                'harness gindom.py / gen_gin.py / refmodel.py', 'hooks are data-driven closures built by the harness']
ASSUMPTIONS = ['a hook is characterised by what it returns or raises', 'identifiers ASCII']
EXPLANATION = ('Lean theorems about step/finalize/unlock (lock flag algebra, rejection leaves state unchanged, hook '
               'conflict detection on normal forms) + differential run of operation histories + independent Python '
               'reference state machine evaluated on the implementation.')


def gen_case(rng):
  regs = G.gen_registry(rng, rng.randint(2, 3))
  scopes = [[], ['a'], ['a', 'b']]
  ops = list(regs) + G.gen_history(rng, regs, rng.randint(8, 25), scopes, w={'special': 0.25})
  if rng.random() < 0.25:
    # two macro references, the first one bound, the second not: finalize must still reject
    withp = [r for r in regs if len([n for n, k in G.param_classes(r).items() if k == 'valid']) >= 1]
    if withp:
      ra, rb = rng.choice(withp), rng.choice(withp)
      pa = rng.choice([n for n, k in G.param_classes(ra).items() if k == 'valid'])
      pb = rng.choice([n for n, k in G.param_classes(rb).items() if k == 'valid'])
      extra = [{'op': 'clear', 'constants': False},
               {'op': 'bind', 'scope': 'm1', 'sel': 'gin.macro', 'arg': 'value', 'val': 3, '_form': 'macro_text', 'block': False},
               {'op': 'bind', 'scope': '', 'sel': ra['_selector'], 'arg': pa, 'val': {'macro': 'm1'}, '_form': 'text',
                'block': False, '_reg': ra['obj'], '_pclass': 'valid'},
               {'op': 'bind', 'scope': 'a', 'sel': rb['_selector'], 'arg': pb, 'val': {'macro': 'm2'}, '_form': 'text',
                'block': False, '_reg': rb['obj'], '_pclass': 'valid'},
               {'op': 'finalize', '_enter': G.gen_enter(rng, rng.choice(scopes)) if rng.random() < 0.6 else []},
               {'op': 'locked'}]
      ops += extra
  if rng.random() < 0.15:
    # a macro whose value is (or holds) a reference to an unknown configurable: rejected at finalize like any other
    unk = {'unk': ['zz.nope', rng.random() < 0.5]}
    ops += [{'op': 'clear', 'constants': False},
            {'op': 'bind', 'scope': rng.choice(['m1', 'a/layer']), 'sel': 'gin.macro', 'arg': 'value',
             'val': rng.choice([unk, {'l': [1, unk]}, {'d': [[unk, 1]]}, {'l': [{'d': [[unk, 2]]}]}]), '_form': 'macro_key',
             'block': False},
            {'op': 'finalize', '_enter': G.gen_enter(rng, rng.choice(scopes)) if rng.random() < 0.3 else []},
            {'op': 'locked'}]
  if rng.random() < 0.25:
    # a class whose method was registered on its own before the lock: registering the class on the locked
    # configuration is refused and renames nothing (the method keeps its free-standing name, bindings and all)
    import copy
    mop, cop = G.gen_class_with_method(rng, 40, module=rng.choice(['m', 'k']))
    if not cop.get('_inherited'):
      cop['_split'] = True
      mop['_split_class'] = copy.deepcopy(cop)
      early = dict(mop, _selector=mop['module'] + '.' + mop['name'])
      ops += [{'op': 'clear', 'constants': False}, mop]
      for _ in range(rng.randint(1, 2)):
        ops.append(G.gen_bind_attempt(rng, [early], scopes))
      ops += [{'op': 'finalize'}, {'op': 'locked'}, cop, {'op': 'registry'}, {'op': 'config'}]
      ops.append(G.gen_bind_attempt(rng, [early], scopes))
      if rng.random() < 0.5:
        body = [cop, {'op': 'registry'}, G.gen_bind_attempt(rng, [mop], scopes)]
        ops.append({'op': 'unlock', 'body': body, 'raises': rng.random() < 0.3})   # inside an unlock block it goes through
  if rng.random() < 0.3:
    ops += gen_nested_key_segment(rng, regs, scopes)
  if rng.random() < 0.3:
    seg = gen_reregister_segment(rng, regs, scopes)
    if seg and rng.random() < 0.5:
      # right after the probes were registered: no hook, no binding yet, the finalize goes through for sure
      ops = list(regs) + seg + [{'op': 'clear', 'constants': False}] + ops[len(regs):]
    else:
      ops += [{'op': 'clear', 'constants': False}] + seg
  ops += [{'op': 'locked'}, {'op': 'config'}, {'op': 'registry'}]
  return {'dom': 'gin', 'ops': ops}


def _valid_params(reg):
  return [n for n, k in G.param_classes(reg).items() if k == 'valid' and n != 'anyk']


def gen_nested_key_segment(rng, regs, scopes):
  """What finalize rejects, sitting inside a container that is a *key* of a dict (a tuple key, a tuple in a tuple key,
  a frozenset key): an unbound macro, an unevaluated macro, a reference to an unknown configurable. Finalize is
  refused and the configuration stays unlocked; once the macro is bound (where that is the only objection) it goes
  through."""
  withp = [r for r in regs if _valid_params(r)]
  if not withp:
    return []
  reg = rng.choice(withp)
  arg = rng.choice(_valid_params(reg))
  mname = rng.choice(['m3', 'a/m3', 'mu'])
  kind = rng.choice(['unbound', 'unbound', 'unevaluated', 'unknown', 'unknown', 'bound'])
  if kind in ('unbound', 'bound'):
    inner = {'macro': mname}
  elif kind == 'unevaluated':
    inner = {'ref': [mname.split('/'), 'gin.macro', False]}
  else:
    inner = {'unk': [rng.choice(['zz.nope', 'no_such_configurable']), rng.random() < 0.5]}
  textual = kind != 'unknown' and rng.random() < 0.6    # the parser writes `{(%m3, 1): 2}` just as well
  shape = rng.randrange(5 if textual else 6)
  other = rng.choice([1, {'s': 'k'}, None])
  if shape == 0:
    key = {'t': [inner, other]}
  elif shape == 1:
    key = {'t': [other, inner]}
  elif shape == 2:
    key = {'t': [inner]}
  elif shape == 3:
    key = {'t': [other, {'t': [inner, 2]}]}
  elif shape == 4:
    key = {'t': [{'t': [{'t': [inner]}]}, other]}
  else:
    key = {'set': [inner]}
  val = {'d': [[key, rng.choice([2, {'s': 'v'}, {'l': [1]}])]]}
  r = rng.random()
  if r < 0.25:
    val = {'l': [0, val]}
  elif r < 0.4:
    val = {'d': [[1, val]]}        # the dict with the container key is itself a value of a dict
  elif r < 0.5:
    val = {'t': [val]}
  bind = {'op': 'bind', 'scope': '/'.join(rng.choice(scopes)), 'sel': reg['_selector'], 'arg': arg, 'val': val,
          '_form': 'text' if textual else rng.choice(['tuple', 'str']), 'block': False, '_reg': reg['obj'], '_pclass': 'valid'}
  macro_bind = {'op': 'bind', 'scope': mname, 'sel': 'gin.macro', 'arg': 'value', 'val': rng.randint(1, 9),
                '_form': 'macro_text', 'block': False}
  seg = [{'op': 'clear', 'constants': False}]
  if kind == 'bound':
    seg.append(macro_bind)
  seg += [bind, {'op': 'config'},
          {'op': 'finalize', '_enter': G.gen_enter(rng, rng.choice(scopes)) if rng.random() < 0.3 else []},
          {'op': 'locked'}, {'op': 'config'}]
  if kind == 'unbound' and rng.random() < 0.6:
    seg += [macro_bind, {'op': 'finalize'}, {'op': 'locked'}]
  return seg


def gen_reregister_segment(rng, regs, scopes):
  """On a finalized configuration a probe is registered once more: the very same object under the very name it has,
  with other allow / deny lists. That is an attempt to register a configurable like any other: refused, and the
  entry (its lists included) is what it was - a parameter the new lists would exclude can still be bound inside an
  unlock block, one the old lists exclude still cannot."""
  import copy
  seg = []
  for reg in rng.sample(regs, rng.randint(1, len(regs))):
    pos, kwo = G.sig_names(reg['sig'], reg['_kind'])
    cand = pos + kwo
    again = copy.deepcopy(reg)
    again['_reuse'] = reg['obj']
    r = rng.random()
    if cand and r < 0.45:
      again.update(allow=[], deny=rng.sample(cand, rng.randint(1, len(cand))))
    elif cand and r < 0.8:
      again.update(allow=rng.sample(cand, rng.randint(1, len(cand))), deny=[])
    else:
      again.update(allow=[], deny=[])
    if rng.random() < 0.5:
      # the name and module it already has, spelled out
      again.update(_name_arg=reg['name'], _explicit_module=reg['module'], _direct=False)
    seg.append(again)
  first = [G.gen_bind_attempt(rng, regs, scopes) for _ in range(rng.randint(0, 2))]
  tail = [{'op': 'registry'}, {'op': 'locked'}]
  body = []
  for reg in regs:
    for n in _valid_params(reg) + [n for n, k in G.param_classes(reg).items() if k in ('denied', 'unlisted')]:
      if rng.random() < 0.7:
        body.append({'op': 'bind', 'scope': '/'.join(rng.choice(scopes)), 'sel': reg['_selector'], 'arg': n,
                     'val': G.gen_value(rng, 1), '_form': rng.choice(['tuple', 'str', 'text']), 'block': False,
                     '_reg': reg['obj'], '_pclass': G.param_classes(reg)[n]})
  tail.append({'op': 'unlock', 'body': body, 'raises': rng.random() < 0.3})
  tail += [{'op': 'config'}, {'op': 'locked'}]
  return first + [{'op': 'finalize'}, {'op': 'locked'}] + seg + tail


def gen_cases(rng, tier, boost=1):
  n = (800 if tier == 'quick' else 20000) * boost
  for _ in range(n):
    yield gen_case(rng)


def oracle(case, impl):
  return refmodel.check_history(case, impl, {'bind', 'config', 'finalize', 'register', 'locked', 'unlock', 'clear', 'hook', 'registry', 'interactive'})


def nontrivial(case, impl):
  locked = False
  for op, res in zip(case['ops'], impl['out']):
    if op['op'] == 'finalize' and 'ok' in res:
      locked = True
    elif op['op'] == 'clear':
      locked = False
    elif op['op'] in ('bind', 'register') and locked and res.get('err') == 'RuntimeError':
      return True
    elif op['op'] == 'unlock' and locked and op['raises']:
      return True
  return False


def tally(stats, case, impl):
  def walk(ops, outs, depth):
    for op, res in zip(ops, outs):
      k = ('  ' * 0) + op['op'] + (':d%d' % depth if depth else '') + ':' + ('ok' if 'ok' in res else res['err'])
      stats[k] = stats.get(k, 0) + 1
      if op['op'] == 'unlock' and 'ok' in res:
        if op['raises']:
          stats['unlock:raises'] = stats.get('unlock:raises', 0) + 1
        walk(op['body'], res['ok']['body'], depth + 1)
  walk(case['ops'], impl['out'], 0)


def shrink(case):
  ops = case['ops']
  keep = set()
  for i, o in enumerate(ops):
    if o.get('_split_class') is not None:
      keep |= {i - 1, i}     # the class statement has to run on an unlocked configuration: its `clear` stays
  for k in range(len(ops) - 1, -1, -1):
    if k in keep or (ops[k]['op'] == 'register' and not ops[k]['name'].startswith('late')):
      continue
    yield {'dom': 'gin', 'ops': ops[:k] + ops[k + 1:]}
  for k, op in enumerate(ops):
    if op['op'] == 'unlock':
      for i in range(len(op['body'])):
        new = dict(op, body=op['body'][:i] + op['body'][i + 1:])
        yield {'dom': 'gin', 'ops': ops[:k] + [new] + ops[k + 1:]}
      yield {'dom': 'gin', 'ops': ops[:k] + op['body'] + ops[k + 1:]}


def classify(case, impl, model, why_oracle, why_model, findings):
  return None
