"""C12 — finalize locks the configuration; unlock_config always restores the lock."""
import gen_gin as G
import refmodel
from gindom import run_impl, to_driver, compare  # noqa: F401

ID = 'C12'
DOMAIN = 'gin/state'
PROPS_FILES = ['Gin/Props/C12.lean']
ANCHOR_FILES = ['config.py']
RULE = ('2-3 registered probes, then a history of 8-25 operations over {finalize, unlock_config block (body of 0-4 ops, '
        'nested up to depth 2, leaving normally or by an exception), bind (valid and invalid), late registration, '
        'clear_config, finalize-hook registration (returning keys in random spellings / None / raising), '
        'config_is_locked and store observations}; non-trivial = the history contains a successful finalize followed by a '
        'rejected mutation, or an unlock block whose body raises while the configuration was locked; distinct = canonical ops')
TRUSTED_BASE = ['Lean 4.33 kernel', 'axioms ⊆ {propext, Classical.choice, Quot.sound}', 'JSON glue (Gin/Drv)',
                'harness gindom.py / gen_gin.py / refmodel.py', 'hooks are data-driven closures built by the harness']
ASSUMPTIONS = ['a hook is characterised by what it returns or raises', 'identifiers ASCII']
EXPLANATION = ('Lean theorems about step/finalize/unlock (lock flag algebra, rejection leaves state unchanged, hook '
               'conflict detection on normal forms) + differential run of operation histories + independent Python '
               'reference state machine evaluated on the implementation.')


def gen_case(rng):
  regs = G.gen_registry(rng, rng.randint(2, 3))
  scopes = [[], ['a'], ['a', 'b']]
  ops = list(regs) + G.gen_history(rng, regs, rng.randint(8, 25), scopes, w={'special': 0.25})
  if rng.random() < 0.25:
    # two macro references, the first one bound, the second not: finalize must still reject
    withp = [r for r in regs if len([n for n, k in G.param_classes(r).items() if k == 'valid']) >= 1]
    if withp:
      ra, rb = rng.choice(withp), rng.choice(withp)
      pa = rng.choice([n for n, k in G.param_classes(ra).items() if k == 'valid'])
      pb = rng.choice([n for n, k in G.param_classes(rb).items() if k == 'valid'])
      extra = [{'op': 'clear', 'constants': False},
               {'op': 'bind', 'scope': 'm1', 'sel': 'gin.macro', 'arg': 'value', 'val': 3, '_form': 'macro_text', 'block': False},
               {'op': 'bind', 'scope': '', 'sel': ra['_selector'], 'arg': pa, 'val': {'macro': 'm1'}, '_form': 'text',
                'block': False, '_reg': ra['obj'], '_pclass': 'valid'},
               {'op': 'bind', 'scope': 'a', 'sel': rb['_selector'], 'arg': pb, 'val': {'macro': 'm2'}, '_form': 'text',
                'block': False, '_reg': rb['obj'], '_pclass': 'valid'},
               {'op': 'finalize', '_enter': G.gen_enter(rng, rng.choice(scopes)) if rng.random() < 0.6 else []},
               {'op': 'locked'}]
      ops += extra
  if rng.random() < 0.15:
    # a macro whose value is (or holds) a reference to an unknown configurable: rejected at finalize like any other
    unk = {'unk': ['zz.nope', rng.random() < 0.5]}
    ops += [{'op': 'clear', 'constants': False},
            {'op': 'bind', 'scope': rng.choice(['m1', 'a/layer']), 'sel': 'gin.macro', 'arg': 'value',
             'val': rng.choice([unk, {'l': [1, unk]}, {'d': [[unk, 1]]}, {'l': [{'d': [[unk, 2]]}]}]), '_form': 'macro_key',
             'block': False},
            {'op': 'finalize', '_enter': G.gen_enter(rng, rng.choice(scopes)) if rng.random() < 0.3 else []},
            {'op': 'locked'}]
  if rng.random() < 0.25:
    # a class whose method was registered on its own before the lock: registering the class on the locked
    # configuration is refused and renames nothing (the method keeps its free-standing name, bindings and all)
    import copy
    mop, cop = G.gen_class_with_method(rng, 40, module=rng.choice(['m', 'k']))
    if not cop.get('_inherited'):
      cop['_split'] = True
      mop['_split_class'] = copy.deepcopy(cop)
      early = dict(mop, _selector=mop['module'] + '.' + mop['name'])
      ops += [{'op': 'clear', 'constants': False}, mop]
      for _ in range(rng.randint(1, 2)):
        ops.append(G.gen_bind_attempt(rng, [early], scopes))
      ops += [{'op': 'finalize'}, {'op': 'locked'}, cop, {'op': 'registry'}, {'op': 'config'}]
      ops.append(G.gen_bind_attempt(rng, [early], scopes))
      if rng.random() < 0.5:
        body = [cop, {'op': 'registry'}, G.gen_bind_attempt(rng, [mop], scopes)]
        ops.append({'op': 'unlock', 'body': body, 'raises': rng.random() < 0.3})   # inside an unlock block it goes through
  ops += [{'op': 'locked'}, {'op': 'config'}, {'op': 'registry'}]
  return {'dom': 'gin', 'ops': ops}


def gen_cases(rng, tier, boost=1):
  n = (800 if tier == 'quick' else 20000) * boost
  for _ in range(n):
    yield gen_case(rng)


def oracle(case, impl):
  return refmodel.check_history(case, impl, {'bind', 'config', 'finalize', 'register', 'locked', 'unlock', 'clear', 'hook', 'registry', 'interactive'})


def nontrivial(case, impl):
  locked = False
  for op, res in zip(case['ops'], impl['out']):
    if op['op'] == 'finalize' and 'ok' in res:
      locked = True
    elif op['op'] == 'clear':
      locked = False
    elif op['op'] in ('bind', 'register') and locked and res.get('err') == 'RuntimeError':
      return True
    elif op['op'] == 'unlock' and locked and op['raises']:
      return True
  return False


def tally(stats, case, impl):
  def walk(ops, outs, depth):
    for op, res in zip(ops, outs):
      k = ('  ' * 0) + op['op'] + (':d%d' % depth if depth else '') + ':' + ('ok' if 'ok' in res else res['err'])
      stats[k] = stats.get(k, 0) + 1
      if op['op'] == 'unlock' and 'ok' in res:
        if op['raises']:
          stats['unlock:raises'] = stats.get('unlock:raises', 0) + 1
        walk(op['body'], res['ok']['body'], depth + 1)
  walk(case['ops'], impl['out'], 0)


def shrink(case):
  ops = case['ops']
  keep = set()
  for i, o in enumerate(ops):
    if o.get('_split_class') is not None:
      keep |= {i - 1, i}     # the class statement has to run on an unlocked configuration: its `clear` stays
  for k in range(len(ops) - 1, -1, -1):
    if k in keep or (ops[k]['op'] == 'register' and not ops[k]['name'].startswith('late')):
      continue
    yield {'dom': 'gin', 'ops': ops[:k] + ops[k + 1:]}
  for k, op in enumerate(ops):
    if op['op'] == 'unlock':
      for i in range(len(op['body'])):
        new = dict(op, body=op['body'][:i] + op['body'][i + 1:])
        yield {'dom': 'gin', 'ops': ops[:k] + [new] + ops[k + 1:]}
      yield {'dom': 'gin', 'ops': ops[:k] + op['body'] + ops[k + 1:]}


def classify(case, impl, model, why_oracle, why_model, findings):
  return None
