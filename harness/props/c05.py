"""C05 — macros and constants are late-bound named values."""
import gen_gin as G
import refmodel
from gindom import run_impl, to_driver, compare  # noqa: F401
from props.c04 import target_reg, tally  # noqa: F401

ID = 'C05'
DOMAIN = 'gin/eval'
PROPS_FILES = ['Gin/Props/C05.lean', 'Gin/Props/C05b.lean']
ANCHOR_FILES = ['config.py', 'config_parser.py', 'selector_map.py']
RULE = ('1-2 consumer probes, 1-2 target probes; macros (plain and scope-like names) defined and redefined before and '
        'after their uses across several parse_config calls (some with skip_unknown on) and programmatic binds, some bound to evaluated references; '
        'constants with shared dotted suffixes defined in and out of interactive mode (valid, invalid, duplicate names), '
        '%abbreviations resolved at parse time (unique / ambiguous / none); consuming calls; finalize under a random '
        'active scope with unbound / unevaluated macro references (also inside tuples that are dict keys); a files family: macros bound in included files, the same file included several times (diamonds, later parse calls) with rebinds in between. non-trivial = a macro is used before its (last) '
        'definition and a call observes it, or an abbreviation of a constant is delivered; distinct = canonical ops')
TRUSTED_BASE = ['Lean 4.33 kernel', 'axioms ⊆ {propext, Classical.choice, Quot.sound}', 'JSON glue (Gin/Drv)',
                'harness gindom.py', 'constant identity is observed through harness objects whose copies are distinguishable']
ASSUMPTIONS = ['macro names are identifiers or scope-like a/b (dotted macro names cannot be defined from config text)',
               'acyclic macro definitions (fuel)']
EXPLANATION = ('Lean theorems about the evaluator (a macro is a scoped call of gin.macro reading the store at evaluation '
               'time; constants deliver the stored object and leave the state untouched; constant definition and '
               '%-resolution rules via the suffix-map theorems of C08; finalize rejects unbound/unevaluated macros) + '
               'differential run of definition/use histories, call logs and finalize under scopes.')

MACROS = ['m1', 'm2', 'a', 'a/b', 'lr', 'include', 'import', 'from']   # the last three: statement keywords are macro names like any other;   # 'a' and 'a/b': a macro named like a scope prefix of another
TUPLE_KEY_MACROS = ['tk1', 'tk2', 'k/tk']   # used inside tuples that are dict keys: bound to hashable values only (no prefix of 'k/tk' is a macro of MACROS: '%a/tk' would read the value of macro 'a')
CONSTS = ['X', 'd.X', 'e.d.X', 'Y', 'q.Y', 'Z']


def gen_case(rng):
  targets = ['t.leaf', 't.mid'][:rng.randint(1, 2)]
  ops = [target_reg(s, 50 + i) for i, s in enumerate(targets)]
  consumers = G.gen_registry(rng, rng.randint(1, 2))
  for c in consumers:
    for plist in (c['sig']['pos'], c['sig']['kwonly']):
      for p in plist:
        if p[1] is None and p[0] not in ('self', 'cls'):
          p[1] = {'v': None}
  ops += consumers
  scopes = [[], ['a'], ['a', 'b']]
  consts = {}      # defined constants (full name -> value), as the reference sees them
  interactive = False
  nops = rng.randint(6, 16)
  uses_const = False
  for _ in range(nops):
    r = rng.random()
    if r < 0.28:   # macro definition
      # now and then a macro named like a constant (or like the abbreviation of one): `%X` still means the constant
      name = rng.choice(MACROS) if rng.random() < 0.8 else rng.choice(['X', 'Y', 'Z'])
      rr = rng.random() if name in MACROS else 0.9
      if rr < 0.2:
        val = {'ref': [rng.choice([[], ['a']]), rng.choice(targets), True]}
      elif rr < 0.3:
        # a macro may only mention macros later in MACROS: definitions stay acyclic (the evaluator's fuel)
        later = MACROS[MACROS.index(name) + 1:]
        if not later:
          val = rng.randint(1, 9)
        else:
          val = {'macro': rng.choice(later)} if rng.random() < 0.5 else {'l': [{'macro': rng.choice(later)}, 1]}
      else:
        val = G.gen_value(rng, 1)
      ops.append({'op': 'bind', 'scope': name, 'sel': 'gin.macro', 'arg': 'value', 'val': val,
                  '_form': rng.choice(['macro_text', 'macro_text', 'macro_key']), 'block': False})
      if ops[-1]['_form'] == 'macro_text' and rng.random() < 0.3:
        # a macro definition is not a binding of an unknown configurable: skip_unknown leaves it alone
        ops[-1]['_skip'] = rng.choice([True, True, ['zz.unknown'], [name], (name, 'gin.macro')])
    elif r < 0.55:  # use of a macro / constant in a consumer binding
      c = rng.choice(consumers)
      cls = [n for n, k in G.param_classes(c).items() if k == 'valid']
      if not cls:
        continue
      if consts and rng.random() < 0.4:
        full = rng.choice(sorted(consts))
        parts = full.split('.')
        abbr = '.'.join(parts[-rng.randint(1, len(parts)):])
        m = refmodel.suffix_matches(consts, abbr)
        ops.append({'op': 'macrolookup', 'name': abbr})
        if len(m) != 1:
          continue
        leaf = {'const': m[0], '_abbr': abbr}
        uses_const = True
      else:
        mname = rng.choice(MACROS)
        if refmodel.suffix_matches(consts, mname):
          continue
        leaf = {'macro': mname}
      val = leaf if rng.random() < 0.6 else {'l': [leaf, {'t': [leaf, 3]}]}
      if rng.random() < 0.2 and not refmodel.suffix_matches(consts, 'key1') and not refmodel.suffix_matches(consts, 'key2'):
        # several different macros as the keys of one dict literal (their values are distinct strings): every key is
        # there, each with its own value, evaluated when the consumer is called
        for mk, mv in (('key1', 'alpha'), ('key2', 'beta')):
          ops.append({'op': 'bind', 'scope': mk, 'sel': 'gin.macro', 'arg': 'value', 'val': {'s': mv},
                      '_form': 'macro_text', 'block': False})
        val = {'d': [[{'macro': 'key1'}, {'s': 'one'}], [{'macro': 'key2'}, val], [{'s': 'plain'}, 3]]}
      if rng.random() < 0.25:
        # a macro inside a tuple that is the key of a dict (possibly below a list): a use like any other - evaluated
        # when the consumer is called, and looked at when the configuration is finalized. These macros are bound to
        # hashable values only (before or after the use), or never bound at all
        mk = rng.choice(TUPLE_KEY_MACROS)
        kleaf = {'macro': mk}
        define = {'op': 'bind', 'scope': mk, 'sel': 'gin.macro', 'arg': 'value',
                  'val': rng.choice([{'s': 'alpha'}, {'s': 'beta'}, 7, None, {'t': [1, 2]}]),
                  '_form': 'macro_text', 'block': False}
        when = rng.choice(['before', 'after', 'never', 'never'])
        if when == 'before':
          ops.append(define)
        val = {'d': [[{'t': rng.choice([[kleaf, 1], [{'s': 'k'}, kleaf], [{'t': [kleaf]}, 2]])},
                      rng.choice([{'s': 'a'}, val])]]}
        if rng.random() < 0.3:
          val = {'l': [val, 0]}
        if when == 'after':
          ops.append({'op': 'bind', 'scope': '/'.join(rng.choice(scopes)), 'sel': c['_selector'], 'arg': rng.choice(cls),
                      'val': val, '_form': 'text', 'block': False})
          ops.append(define)
          continue
      ops.append({'op': 'bind', 'scope': '/'.join(rng.choice(scopes)), 'sel': c['_selector'], 'arg': rng.choice(cls),
                  'val': val, '_form': 'text', 'block': False})
    elif r < 0.72:  # constant definition (valid / invalid / duplicate / suffix collision)
      name = rng.choice(CONSTS + ['1bad', 'a b', '', 'X\n', 'd.X\n'])
      valid = bool(refmodel.MODULE.match(name))
      val = {'o': 300 + rng.randint(0, 9)} if rng.random() < 0.6 else G.gen_value(rng, 1)
      ops.append({'op': 'constant', 'name': name, 'nameValid': valid, 'val': val})
      if valid and (interactive or not refmodel.suffix_matches(consts, name)):
        consts[name] = val
    elif r < 0.78:
      interactive = rng.random() < 0.6
      ops.append({'op': 'interactive', 'on': interactive})
    elif r < 0.84:
      ops.append({'op': 'macrolookup', 'name': rng.choice(['X', 'd.X', 'Y', 'Z', 'm1', 'q.Y', 'nope.X'])})
    elif r < 0.88:  # a reset that keeps the constants: they must stay the very same objects
      ops.append({'op': 'clear', 'constants': False})
    else:          # consuming call
      c = rng.choice(consumers)
      call = G.gen_call(rng, c, G.gen_enter(rng, rng.choice(scopes)), w_bad=0.0)
      call['op'] = 'ecall'
      ops.append(call)
  for _ in range(rng.randint(1, 2)):
    c = rng.choice(consumers)
    call = G.gen_call(rng, c, G.gen_enter(rng, rng.choice(scopes)), w_bad=0.0)
    call['op'] = 'ecall'
    ops.append(call)
  ops += [{'op': 'log'}, {'op': 'config'}]
  if rng.random() < 0.6:
    if rng.random() < 0.3:  # an unevaluated reference to the macro configurable
      c = rng.choice(consumers)
      cls = [n for n, k in G.param_classes(c).items() if k == 'valid']
      if cls:
        uneval = {'ref': [[rng.choice(['m1', 'm1', 'm2', 'a/b'])], 'gin.macro', False]}
        ops.append({'op': 'bind', 'scope': '', 'sel': c['_selector'], 'arg': rng.choice(cls),
                    'val': rng.choice([uneval, uneval, {'d': [[{'t': [{'s': 'k'}, uneval]}, {'s': 'a'}]]},
                                       {'l': [{'d': [[{'t': [uneval, 1]}, 2]]}]}]),
                    '_form': 'text', 'block': False})
    ops.append({'op': 'finalize', '_enter': G.gen_enter(rng, rng.choice(scopes))})
    ops.append({'op': 'locked'})
  return {'dom': 'gin', 'ops': ops, '_uses_const': uses_const}


FILE_MACROS = ['rate', 'm1', 'low/rate', 'a/b']
USE_SEL = 'c.use'


def gen_files_case(rng):
  """Macros bound in included files: a few leaf files bind macros, a few files include leaf files (in any order, the
  same one more than once) and rebind the macros before / between / after, and one to three parse calls include any of
  these files, rebind macros and bind the parameters of a consumer to `%macro`; consuming calls between and after the
  parse calls. Every binding statement carries a value of its own, so the call shows which one was applied last."""
  import gen_stmts as S
  ops = [target_reg(USE_SEL, 0)]
  macros = rng.sample(FILE_MACROS, rng.randint(1, 2))
  counter = [0]
  files, stmts_of = {}, {}

  def bind_macro(b):
    counter[0] += 1
    S.add_binding(b, '', rng.choice(macros), '', counter[0])

  def include(b, name):
    b.add("include '" + name + "'", {'k': 'include', 'name': name, 'file': stmts_of[name]})

  leaves = ['base%d.gin' % i for i in range(rng.randint(1, 2))]
  for name in leaves:
    b = S.Builder()
    for _ in range(rng.randint(1, 2)):
      bind_macro(b)
    files[name], stmts_of[name] = b.text(), b.stmts
  mids = ['mid%d.gin' % i for i in range(rng.randint(1, 3))]
  for name in mids:
    b = S.Builder()
    for _ in range(rng.randint(1, 4)):
      if rng.random() < 0.6:
        include(b, rng.choice(leaves))
      else:
        bind_macro(b)
    files[name], stmts_of[name] = b.text(), b.stmts

  def call():
    return {'op': 'ecall', 'sel': USE_SEL, 'enter': G.gen_enter(rng, rng.choice([[], ['a'], ['low']])), 'args': [],
            'kwargs': [], '_target': 0}
  used = False
  for k in range(rng.randint(1, 3)):
    b = S.Builder()
    for _ in range(rng.randint(2, 5)):
      r = rng.random()
      if r < 0.55:
        include(b, rng.choice(mids + leaves))
      elif r < 0.75:
        bind_macro(b)
      else:
        used = True
        S.add_binding(b, '', USE_SEL, rng.choice(['p', 'q']), {'rawmacro': rng.choice(macros)})
    if not used:
      used = True
      S.add_binding(b, '', USE_SEL, 'p', {'rawmacro': macros[0]})
    entry = rng.choice(['config', 'config', 'file'])
    text = b.text()
    if entry == 'file':
      top = 'top%d.gin' % k
      ops.append({'op': 'parse', 'file': top, 'skip': {'k': 'no'}, 'stmts': b.stmts, '_text': text,
                  '_files': dict(files, **{top: text}), '_regmods': {}})
    else:
      ops.append({'op': 'parse', 'file': None, 'skip': {'k': 'no'}, 'stmts': b.stmts, '_text': text,
                  '_files': dict(files), '_regmods': {}})
    if rng.random() < 0.6:
      ops.append(call())
  ops += [call(), {'op': 'log'}, {'op': 'config'}]
  return {'dom': 'gin', 'ops': ops, '_kind': 'files', '_uses_const': False}


def _files_oracle(case, impl):
  """The value a consuming call receives for a parameter bound to `%name` is the value of the last `name = value`
  statement in statement order (include statements standing for the statements of their file)."""
  latest, uses, expect = {}, {}, []

  def apply(stmts):
    for st in stmts:
      if st['k'] == 'include':
        apply(st['file'])
      elif st['k'] == 'bind' and st['sel'] == 'gin.macro' or (st['k'] == 'bind' and not st['arg']):
        name = (st['scope'] + '/' if st['scope'] else '') + st['sel']
        latest[name] = st['val']
      elif st['k'] == 'bind' and st['sel'] == USE_SEL:
        uses[st['arg']] = st['val']['rawmacro']
  for op, res in zip(case['ops'], impl['out']):
    if op['op'] == 'parse':
      if 'ok' not in res:
        return f'a parse call over existing files and well-formed statements failed: {res}'
      apply(op['stmts'])
    elif op['op'] == 'ecall':
      missing = [m for m in uses.values() if m not in latest]
      if missing:
        if 'ok' in res:
          return f'a call succeeded although macro(s) {missing} were never bound'
        continue
      if 'ok' not in res:
        return f'a consuming call failed although every macro it uses is bound: {res}'
      expect.append({a: latest[m] for a, m in uses.items()})
    elif op['op'] == 'log' and 'ok' in res:
      events = [ev for sel, evs in res['ok'] if sel == USE_SEL for ev in evs]
      if len(events) != len(expect):
        return f'{len(expect)} consuming calls succeeded but the consumer ran {len(events)} times'
      for i, (ev, want) in enumerate(zip(events, expect)):
        got = dict((k, v) for k, v in ev[1])
        for a, v in want.items():
          if got.get(a) != v:
            return (f'consuming call {i}: parameter {a} (bound to a macro) received {got.get(a)!r}, the most recent '
                    f'binding of that macro in statement order is {v!r}')
  return None


def gen_cases(rng, tier, boost=1):
  n = (700 if tier == 'quick' else 20000) * boost
  for i in range(n):
    if i % 5 == 4:
      yield gen_files_case(rng)
    yield gen_case(rng)


def oracle(case, impl):
  """Independent statements: constant rules, %-resolution, finalize verdict, store immutability under calls."""
  if case.get('_kind') == 'files':
    return _files_oracle(case, impl)
  why = refmodel.check_history(case, impl, {'constant', 'finalize', 'locked', 'interactive'})
  if why:
    return why
  consts = {}
  interactive = False
  for k, (op, res) in enumerate(zip(case['ops'], impl['out'])):
    if op['op'] == 'interactive':
      interactive = op['on']
    elif op['op'] == 'constant' and 'ok' in res:
      consts[op['name']] = op['val']
    elif op['op'] == 'macrolookup':
      m = refmodel.suffix_matches(consts, op['name'])
      want = ({'ok': {'macro': op['name']}} if not m else
              ({'ok': {'const': m[0]}} if len(m) == 1 else {'err': 'ValueError'}))
      got = res if 'ok' in res else {'err': res['err']}
      if got != want:
        return f'op {k}: %{op["name"]} with constants {sorted(consts)} resolved to {got}, expected {want}'
  return None


def nontrivial(case, impl):
  if case.get('_kind') == 'files':
    def names(stmts):
      for st in stmts:
        if st['k'] == 'include':
          yield st['name']
          yield from names(st['file'])
    incl = [n for op in case['ops'] if op['op'] == 'parse' for n in names(op['stmts'])]
    return len(incl) > len(set(incl)) and any(o['op'] == 'ecall' and 'ok' in r for o, r in zip(case['ops'], impl['out']))
  seen_use = set()
  late = False
  for op in case['ops']:
    if op['op'] == 'bind' and op['sel'] == 'gin.macro':
      if op['scope'] in seen_use:
        late = True
    elif op['op'] == 'bind':
      def walk(v):
        if isinstance(v, dict):
          if 'macro' in v:
            seen_use.add(v['macro'])
          for kk in ('l', 't'):
            for x in v.get(kk, []):
              walk(x)
      walk(op['val'])
  called = any(o['op'] == 'ecall' and 'ok' in r for o, r in zip(case['ops'], impl['out']))
  return called and (late or case.get('_uses_const', False))


def shrink(case):
  ops = case['ops']
  for k in range(len(ops) - 1, -1, -1):
    if ops[k]['op'] in ('register',):
      continue
    yield dict(case, ops=ops[:k] + ops[k + 1:])


def classify(case, impl, model, why_oracle, why_model, findings):
  return None
