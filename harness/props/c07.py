"""C07 — the operative config records exactly what Gin supplied and suffices to replay."""
import gen_gin as G
import gindom
from props import c01
from props.c01 import _overlay  # noqa: F401


def _dyn(case):
  return case.get('dom') == 'dyn'


def to_driver(case, impl):
  if _dyn(case):
    from props import c19
    return c19.to_driver(case, impl)
  return gindom.to_driver(case, impl)


def tally(stats, case, impl):
  if _dyn(case):
    stats['dynamic_registration_cases'] = stats.get('dynamic_registration_cases', 0) + 1
    k = 'dyn:operative_replays=' + str(impl.get('operative_replays'))[:12]
    stats[k] = stats.get(k, 0) + 1
    return
  c01.tally(stats, case, impl)
from encode import decode

ID = 'C07'
DOMAIN = 'gin/call'
PROPS_FILES = ['Gin/Props/C07.lean', 'Gin/Props/C07b.lean']
ANCHOR_FILES = ['config.py']
RULE = ('[table on the real code: called registered methods of same-named classes in different modules; operative text replays] '
        'C01 generator with allow/deny lists, signature defaults that are sometimes not literally representable '
        '(opaque objects) and bindings to opaque objects; 2-6 calls under random scopes with random caller-supplied / '
        'omitted splits, in a third callees that alter nested mutable bound values in place, operative_config_str() parsed after every call; at the end the text is replayed on the real '
        'code (clear_config, parse_config(text), same calls) and received arguments and text are compared. '
        'non-trivial = at least 2 successful calls of one configurable with different caller-supplied parameter sets, '
        'or a call whose operative section mixes defaults and bindings; distinct = canonical ops')
TRUSTED_BASE = ['Lean 4.33 kernel', 'axioms ⊆ {propext, Classical.choice, Quot.sound}', 'JSON glue (Gin/Drv)',
                'harness gindom.py (incl. the line-based reader of operative_config_str text) / gen_gin.py',
                'repr/pprint of literal values is CPython\'s; values here are reference-free (C04/C05 cover references and macros)']
ASSUMPTIONS = ['replay is claimed for calls that did not fail on a missing REQUIRED parameter (a failed call still records '
               'signature defaults; see DESIGN §7 D23)']
EXPLANATION = ('Lean theorems about the operative parameters computed by phaseA (exact characterisation per parameter, '
               'exclusions) and the record update in State.call + differential comparison of the parsed '
               'operative_config_str() after every call + real replay of the text on the implementation.')


def gen_nested_mutable(rng, depth=0):
  """A reference-free value with a mutable container inside another container (a dict holding a list, a list holding
  a dict, a tuple holding either ...)."""
  from encode import canon

  def inner():
    if depth < 2 and rng.random() < 0.3:
      return gen_nested_mutable(rng, depth + 1)
    r = rng.random()
    if r < 0.5:
      return {'l': [G.gen_value(rng, 2) for _ in range(rng.randint(0, 3))]}
    if r < 0.8:
      return {'d': [[{'s': 'k'}, G.gen_value(rng, 2)]] if rng.random() < 0.7 else []}
    return {'t': [{'l': [G.gen_value(rng, 2)]}]}
  r = rng.random()
  if r < 0.45:
    keys = rng.sample([1, 2, {'s': 'layers'}, {'s': 'name'}, None, {'t': [1, 2]}], rng.randint(1, 3))
    keys = sorted(keys, key=canon)
    at = rng.randrange(len(keys))
    return {'d': [[k, inner() if i == at or rng.random() < 0.4 else G.gen_value(rng, 2)] for i, k in enumerate(keys)]}
  items = [G.gen_value(rng, 2) for _ in range(rng.randint(0, 2))]
  items.insert(rng.randint(0, len(items)), inner())
  return {'l': items} if r < 0.8 else {'t': items}


def gen_case(rng):
  regs = G.gen_registry(rng, rng.randint(1, 3), w_opaque_default=0.15, w_posonly=0.2)
  # one Python function registered again under another name, with a deny / allow list of its own: which signature
  # defaults are recorded is a matter of each registration's lists
  for reg in list(regs):
    if reg['_kind'] == 'fn' and reg['_api'] == 'external' and rng.random() < 0.5:
      names = [p[0] for p in reg['sig']['pos'] + reg['sig']['kwonly'] if p[1] is not None]
      again = dict(reg, obj=len(regs), name='again%d' % reg['obj'], _selector=reg['module'] + '.again%d' % reg['obj'],
                   _reuse=reg['obj'], _name_arg='again%d' % reg['obj'], allow=[], deny=[])
      if names and rng.random() < 0.8:
        if rng.random() < 0.6:
          again['deny'] = [rng.choice(names)]
        else:
          again['allow'] = [rng.choice(names)]
      regs.append(again)
  ops = list(regs)
  focus = G.rand_scope(rng, 3)
  scopes = [focus[:i] for i in range(len(focus) + 1)] + [['c']]
  body = []
  for _ in range(rng.randint(0, 8)):
    val = (({'o': rng.randint(1, 3)} if rng.random() < 0.7 else {'f': rng.choice(['inf', 'nan']), 'fin': False})
           if rng.random() < 0.15 else None)
    b = G.gen_bind(rng, rng.choice(regs), rng.choice(scopes), value=val)
    if b:
      if val is not None:
        b['_form'] = rng.choice(['tuple', 'list', 'str'])
        b['block'] = False
      body.append(b)
  # callees that alter, in place and at any depth, what they were handed (append to a list inside a dict, add a key to
  # a dict inside a tuple ...): the record still shows what Gin supplied, and the replayed calls receive the same
  mutating = rng.random() < 0.3
  if mutating:
    for _ in range(rng.randint(1, 3)):
      b = G.gen_bind(rng, rng.choice(regs), rng.choice(scopes), value=gen_nested_mutable(rng))
      if b:
        body.append(b)
  fixed_store = rng.random() < 0.7   # all bindings precede all calls: the replay claim applies
  for _ in range(rng.randint(2, 6)):
    reg = rng.choice(regs)
    tgt = rng.choice(scopes)
    k = len(body) if fixed_store else rng.randint(len(body) // 2, len(body))
    body[k:k] = [G.gen_call(rng, reg, G.gen_enter(rng, tgt), w_required=0.05), {'op': 'opstr'}]
  if not fixed_store and rng.random() < 0.6:
    # the value used most recently, also when it compares equal to the one recorded before (1 / True / 1.0)
    reg = rng.choice(regs)
    cls = [n for n, k in G.param_classes(reg).items() if k == 'valid' and n not in ('anyk',)]
    if cls:
      p = rng.choice(cls)
      v1, v2 = rng.choice([(1, True), (True, 1), (0, False), (0, {'f': '0.0', 'fin': True}), ({'f': '1.0', 'fin': True}, 1),
                           ({'t': [1, 0]}, {'t': [True, False]}), ({'l': [1]}, {'l': [{'f': '1.0', 'fin': True}]})])
      sc = rng.choice(scopes)
      for v in (v1, v2):
        body.append({'op': 'bind', 'scope': '/'.join(sc), 'sel': reg['_selector'], 'arg': p, 'val': v,
                     '_form': rng.choice(['tuple', 'str', 'text']), 'block': False})
        call = G.gen_call(rng, reg, G.gen_enter(rng, sc), w_bad=0.0)
        call['kwargs'] = [kv for kv in call['kwargs'] if kv[0] != p]
        call['args'] = call['args'][:1] if '_selfname' in call else []
        body += [call, {'op': 'operative'}, {'op': 'opstr'}]
  if mutating:
    for op in body:
      if op['op'] == 'call' and rng.random() < 0.85:
        op['_mutate'] = True
  ops += body
  ops += [{'op': 'operative'}, {'op': 'opstr'}]
  return {'dom': 'gin', 'ops': ops, '_fixed_store': fixed_store}


MACRO_VALUES = [None, 0, False, {'s': ''}, {'l': []}, {'d': []}, 7, {'s': 'relu'}, {'l': [1, {'t': [2]}]},
                {'f': 'inf', 'fin': False}, {'o': 2}]


def gen_macro_case(rng):
  """Macros (also bound to falsy or unrepresentable values) used by called configurables: the operative
  config must define every macro that was used, and suffice to replay."""
  consumers = G.gen_registry(rng, rng.randint(1, 2))
  for c in consumers:
    for plist in (c['sig']['pos'], c['sig']['kwonly']):
      for p in plist:
        if p[1] is None and p[0] not in ('self', 'cls'):
          p[1] = {'v': None}
  ops = list(consumers)
  names = ['m1', 'm2', 'a/b']
  for nm in rng.sample(names, rng.randint(1, 3)):
    ops.append({'op': 'bind', 'scope': nm, 'sel': 'gin.macro', 'arg': 'value', 'val': rng.choice(MACRO_VALUES),
                '_form': 'macro_key', 'block': False})
  defined = [o['scope'] for o in ops if o['op'] == 'bind']
  scopes = [[], ['a'], ['a', 'b']]
  for _ in range(rng.randint(1, 4)):
    c = rng.choice(consumers)
    cls = [n for n, k in G.param_classes(c).items() if k == 'valid']
    if not cls:
      continue
    leaf = {'macro': rng.choice(defined)}
    val = leaf if rng.random() < 0.7 else {'l': [leaf, 3]}
    ops.append({'op': 'bind', 'scope': '/'.join(rng.choice(scopes)), 'sel': c['_selector'], 'arg': rng.choice(cls),
                'val': val, '_form': 'text', 'block': False})
  for _ in range(rng.randint(1, 3)):
    c = rng.choice(consumers)
    call = G.gen_call(rng, c, G.gen_enter(rng, rng.choice(scopes)), w_bad=0.0)
    call['op'] = 'ecall'
    ops.append(call)
  ops.append({'op': 'opdoc'})
  return {'dom': 'gin', 'ops': ops, '_kind': 'macro', '_fixed_store': True}


SINGLETON_CASES = [{'dom': 'gin', '_kind': 'singleton', 'scope': sc, 'key': key, 'ops': []}
                   for sc in ('', 'a/b') for key in ('shared', 'x/shared')]


def run_singleton_case(case):
  """A called gin.singleton is a called configurable like any other: it has a section, and the text replays."""
  import core
  gin = core.fresh_gin()
  g = {'gin': gin, '__name__': 'sm'}
  exec('class Thing:\n  def __init__(self, n=1):\n    self.n = n\n'  # pylint: disable=exec-used
       'def holder(v=None, w=2):\n  return (type(v).__name__, getattr(v, "n", None), w)\n', g)
  gin.external_configurable(g['Thing'], module='sm')
  holder = gin.configurable(g['holder'], module='sm')
  key = case['key']
  gin.parse_config(f'sm.holder.v = @{key}/gin.singleton()\n{key}/gin.singleton.constructor = @sm.Thing\nsm.Thing.n = 5\n')
  import contextlib

  def call():
    with contextlib.ExitStack() as st:
      if case['scope']:
        st.enter_context(gin.config_scope(case['scope']))
      return list(holder())
  facts = {'first': call()}
  text = gin.operative_config_str()
  facts['text'] = text
  facts['has_singleton_section'] = f'{key}/gin.singleton.constructor' in text or f'{key}/singleton.constructor' in text
  try:
    gin.clear_config()
    gin.parse_config(text)
    facts['replay'] = call()
    facts['same_text'] = gin.operative_config_str() == text
  except Exception as e:  # pylint: disable=broad-except
    facts['replay'] = f'{type(e).__name__}: {e}'[:200]
  return {'out': [], 'facts': facts}


# registered methods of two classes that share their name (and the method's name) across modules: the section of
# a called method is printed under a name that parses back - a finite table on the real code
METHOD_CASES = [{'dom': 'gin', '_kind': 'methods', 'scope': sc, 'called': called, 'third': third, 'ops': []}
                for sc in ('', 'a/b') for called in ('sgd', 'adam', 'both') for third in (False, True)]


def run_methods_case(case):
  import contextlib
  import types as _types
  import core
  gin = core.fresh_gin()
  classes = {}
  for mod in ('sgd', 'adam') + (('solo',) if case['third'] else ()):
    g = {'gin': gin, '__name__': mod}
    cname = 'Optimizer' if mod != 'solo' else 'Solo'
    exec(f'class {cname}:\n  def __init__(self, lr=0.1):\n    self.lr = lr\n'  # pylint: disable=exec-used
         f'  @gin.register\n  def step(self, clip=None, tag={mod!r}):\n    return (tag, self.lr, clip)\n', g)
    gin.register(g[cname])
    classes[mod] = g[cname]
    del _types
    import types as _types
  pre = case['scope'].split('/')[0] + '/' if case['scope'] else ''
  gin.bind_parameter(pre + 'sgd.Optimizer.step.clip', 5.0)
  gin.bind_parameter('adam.Optimizer.step.clip', 7.0)
  gin.bind_parameter('sgd.Optimizer.lr', 0.5)
  if case['third']:
    gin.bind_parameter('Solo.step.clip', 9.0)
  which = ['sgd', 'adam'] if case['called'] == 'both' else [case['called']]
  if case['third']:
    which.append('solo')

  def calls():
    out = []
    with contextlib.ExitStack() as st:
      if case['scope']:
        st.enter_context(gin.config_scope(case['scope']))
      for m in which:
        out.append(list(gin.get_configurable(classes[m])().step()))
    return out
  facts = {}
  try:
    facts['first'] = calls()
    text = gin.operative_config_str()
    facts['text'] = text
    gin.clear_config()
    gin.parse_config(text)
    facts['replay'] = calls()
    facts['same_text'] = gin.operative_config_str() == text
  except Exception as e:  # pylint: disable=broad-except
    facts['error'] = f'{type(e).__name__}: {e}'[:300]
  want = {'sgd': ['sgd', 0.5, 5.0], 'adam': ['adam', 0.1, 7.0], 'solo': ['solo', 0.1, 9.0]}
  facts['want'] = [want[m] for m in which]
  return {'out': [], 'facts': facts}


# the operative text after calls that did not go well, or after the configuration moved on: it is still produced, it
# still parses, and what was recorded stays recorded - a finite table on the real code
ROBUST_CASES = [{'dom': 'gin', '_kind': 'robust', 'what': w, 'scope': sc, 'nested': n, 'ops': []}
                for w in ('unbound_macro', 'reference_reinit') for sc in ('', 'a/b') for n in (False, True)]


def run_robust_case(case):
  import contextlib
  import core
  gin = core.fresh_gin()
  facts = {}
  sc = case['scope']
  try:
    if case['what'] == 'unbound_macro':
      g = {'gin': gin, '__name__': 'rb'}
      exec('def f(x=1, y=2):\n  return (x, y)\ndef ok(z=3):\n  return z\n', g)  # pylint: disable=exec-used
      f, ok = gin.configurable(g['f']), gin.configurable(g['ok'])
      gin.parse_config('rb.f.x = ' + ('[1, %undefined]' if case['nested'] else '%undefined') + '\nrb.ok.z = 4\n')
      with contextlib.ExitStack() as st:
        if sc:
          st.enter_context(gin.config_scope(sc))
        ok()
        try:
          f()
          facts['call'] = 'returned'
        except Exception as e:  # pylint: disable=broad-except
          facts['call'] = type(e).__name__
      text = gin.operative_config_str()
      facts['text_has_ok'] = 'ok.z = 4' in text
      gin.clear_config()
      gin.parse_config(text)
      facts['parses'] = True
    else:
      import sys
      import os
      sys.path.insert(0, os.path.dirname(os.path.dirname(os.path.abspath(__file__))))
      import c19pkg.m1 as m1  # noqa  pylint: disable=import-error
      dr = 'from __gin__ import dynamic_registration\nimport c19pkg.m1\n'
      ref = '[@c19pkg.m1.Cls]' if case['nested'] else '@c19pkg.m1.Cls'
      pre = sc + '/' if sc else ''
      gin.parse_config(dr + f'{pre}c19pkg.m1.f.a = {ref}\n')
      with contextlib.ExitStack() as st:
        if sc:
          st.enter_context(gin.config_scope(sc))
        gin.get_configurable(m1.f)()
      before = [l for l in gin.operative_config_str().splitlines() if 'f.a = ' in l]
      # the binding is replaced (the reference now lives in the operative record only) and a method of the referenced
      # class is configured, which registers the class again
      gin.parse_config(dr + f'{pre}c19pkg.m1.f.a = 3\nc19pkg.m1.Cls.meth.k = 7\n')
      after = [l for l in gin.operative_config_str().splitlines() if 'f.a = ' in l]
      facts['line_before'], facts['line_after'] = before, after
      facts['kept'] = bool(before) and before == after
  except Exception as e:  # pylint: disable=broad-except
    facts['error'] = f'{type(e).__name__}: {e}'[:300]
  return {'out': [], 'facts': facts}


def gen_cases(rng, tier, boost=1):
  yield from METHOD_CASES
  yield from ROBUST_CASES
  # under dynamic registration: files of the C19 generator after which functions bound from Python are called; the
  # operative text must name (import) what it mentions and parse in a fresh process
  from props import c19
  want, seen = (60 if tier == 'quick' else 2000) * boost, 0
  for case in c19.gen_cases(rng, 'thorough', boost):
    if case.get('_prog'):
      yield case
      seen += 1
      if seen >= want:
        break
  yield from SINGLETON_CASES
  n = (900 if tier == 'quick' else 25000) * boost
  for k in range(n):
    yield gen_macro_case(rng) if k % 5 == 4 else gen_case(rng)


def compare(case, impl, model):
  if _dyn(case):
    from props import c19
    return c19.compare(case, impl, model)
  if case.get('_kind') in ('singleton', 'methods', 'robust'):
    return None
  if case.get('_kind') != 'macro':
    return gindom.compare(case, impl, model)
  from props.c06 import _plain
  mo = model.get('out')
  if mo is None:
    return f'driver error: {model}'
  why = gindom.compare(dict(case, ops=case['ops'][:-1]), {'out': impl['out'][:-1]}, {'out': mo[:-1]})
  if why:
    return why
  m = mo[-1].get('ok')
  want = {'macros': [[a, _plain(b)] for a, b in m['macros']],
          'sections': [[(k.split('|')[0] + '/' if k.split('|')[0] else '') + k.split('|')[1], [[p, _plain(v)] for p, v in ps]]
                       for k, ps in m['sections']]}
  got = impl['out'][-1].get('ok')
  if got != want:
    return f'structure of operative_config_str(): impl {got} model {want}'
  return None


def run_impl(case):
  """Normal run, then the replay experiment on the same interpreter state."""
  if _dyn(case):
    from props import c19
    return c19.run_impl(case)
  if case.get('_kind') == 'singleton':
    return run_singleton_case(case)
  if case.get('_kind') == 'methods':
    return run_methods_case(case)
  if case.get('_kind') == 'robust':
    return run_robust_case(case)
  from encode import Opaque
  Opaque._all.clear()  # pylint: disable=protected-access
  s = gindom.Session()
  macro_case = case.get('_kind') == 'macro'
  out = [s.run_op(op) for op in (case['ops'][:-1] if macro_case else case['ops'])]
  gin = s.gin
  text = gin.operative_config_str()
  if macro_case:
    from props.c06 import ordered_doc
    macros, sections = ordered_doc(s, text)
    out.append({'ok': {'macros': macros, 'sections': [[sc[0], [[p, v] for p, v, _ in sc[1]]] for sc in sections]}})
  replay = {'text_parses': True}
  nlog = len(s.log)
  first_log = [[sel, rec['scope'], rec['params'], rec['extra'], rec['kw']] for sel, rec in s.log]
  try:
    gin.clear_config()
    gin.parse_config(text)
  except Exception as e:  # pylint: disable=broad-except
    return {'out': out, 'replay': {'text_parses': False, 'error': f'{type(e).__name__}: {e}'[:400], 'text': text}}
  try:
    second = []
    for op, res in zip(case['ops'], out):
      if op['op'] in ('call', 'ecall'):
        second.append(s.run_op(op))
    replay['calls'] = second
    replay['first_log'] = first_log
    replay['second_log'] = [[sel, rec['scope'], rec['params'], rec['extra'], rec['kw']] for sel, rec in s.log[nlog:]]
    replay['same_text'] = gin.operative_config_str() == text
    if not replay['same_text']:
      replay['text1'], replay['text2'] = text, gin.operative_config_str()
  except Exception as e:  # pylint: disable=broad-except
    replay['replay_error'] = f'{type(e).__name__}: {e}'[:400]
    replay['text1'] = text
  return {'out': out, 'replay': replay}


def _representable(v):
  if isinstance(v, dict):
    if 'o' in v or 'req' in v or 'set' in v or 'c' in v or 'unk' in v:
      return False
    if 'f' in v:
      return v['fin']
    for k in ('l', 't'):
      if k in v:
        return all(_representable(x) for x in v[k])
    if 'd' in v:
      return all(_representable(a) and _representable(b) for a, b in v['d'])
  return True


def oracle(case, impl):
  """C07 stated directly on the parsed operative_config_str()."""
  if _dyn(case):
    from props import c19
    return c19.oracle(case, impl)
  if case.get('_kind') == 'macro':
    return macro_oracle(case, impl)
  if case.get('_kind') == 'robust':
    f = impl['facts']
    if 'error' in f:
      return f'operative_config_str() after {case["what"]} (scope {case["scope"]!r}, nested {case["nested"]}): {f["error"]}'
    if case['what'] == 'unbound_macro' and not (f.get('text_has_ok') and f.get('parses')):
      return f'operative text after a call that evaluated an unbound macro: {f}'
    if case['what'] == 'reference_reinit' and not f.get('kept'):
      return (f'a parameter recorded for a call disappeared although the configurable was not called again: '
              f'{f.get("line_before")} -> {f.get("line_after")}')
    return None
  if case.get('_kind') == 'methods':
    f = impl['facts']
    if 'error' in f:
      return (f'methods of same-named classes ({case["called"]}, scope {case["scope"]!r}): the operative config does not '
              f'replay: {f["error"]}\n{f.get("text", "")}')
    if f['first'] != f['want']:
      return f'harness: method scenario delivered {f["first"]}, expected {f["want"]}'
    if f['replay'] != f['first'] or not f['same_text']:
      return f'replaying the operative config: first {f["first"]}, replay {f["replay"]}, same text {f["same_text"]}\n{f["text"]}'
    return None
  if case.get('_kind') == 'singleton':
    f = impl['facts']
    if f['first'] != ['Thing', 5, 2]:
      return f'harness: singleton scenario delivered {f["first"]}'
    if not f['has_singleton_section']:
      return f'the called singleton configurable has no section in the operative config:\n{f["text"]}'
    if f.get('replay') != f['first'] or not f.get('same_text'):
      return f'replaying the operative config: first {f["first"]}, replay {f.get("replay")}, same text {f.get("same_text")}\n{f["text"]}'
    return None
  regs, binds = {}, {}
  record = {}     # (scope_str, sel) -> {param: value}   what the property says must be listed
  all_repr = True
  for k, (op, res) in enumerate(zip(case['ops'], impl['out'])):
    if op['op'] == 'register' and 'ok' in res:
      regs[op['obj']] = op
    elif op['op'] == 'bind' and 'ok' in res:
      binds.setdefault((op['scope'], op['sel']), {})[op['arg']] = op['val']
    elif op['op'] == 'call':
      reg = regs.get(op['_target'])
      if reg is None:
        bad = [r for o, r in zip(case['ops'], impl['out']) if o['op'] == 'register' and o.get('obj') == op['_target']]
        return f'op {k}: the registration of the called configurable was refused: {bad}'
      if res.get('err') == 'ValueError' and 'ok' not in res:
        # invalid scope or REQUIRED in *args: nothing is recorded
        continue
      scope = res['ok']['scope'] if 'ok' in res else None
      if scope is None:
        scope = []
        for a in op['enter']:
          if a['k'] == 'name':
            scope = scope + a['v'].split('/')
          elif a['k'] == 'list':
            scope = list(a['v'])
          elif a['k'] == 'clear':
            scope = []
      ov = _overlay(binds, reg['_selector'], scope)
      posnames = [p[0] for p in reg['sig']['pos']]
      supplied = {n for n, v in zip(posnames, op['args']) if v != G.REQ}
      supplied |= {n for n, v in op['kwargs'] if v != G.REQ}
      allp = reg['sig']['pos'] + reg['sig']['kwonly']
      sec = record.setdefault(('/'.join(scope), reg['_selector']), {})
      cand = {}
      # (a positional-only parameter is not configurable, D56: its default is not Gin's to supply on a replay)
      po = {p[0] for p in reg['sig']['pos'][:reg['sig'].get('posonly', 0)]}
      for n, d in allp:
        if d is not None and n not in po and not ((reg['allow'] and n not in reg['allow']) or (reg['deny'] and n in reg['deny'])):
          if _representable(d['v']):
            cand[n] = d['v']
      cand.update(ov)
      for n, v in cand.items():
        if n in supplied:
          continue
        if not _representable(v):
          all_repr = False
          sec.pop(n, None) if False else None
          sec[n] = v
        else:
          sec[n] = v
    elif op['op'] == 'opstr':
      want = sorted([sc + '|' + sel, sorted([a, v] for a, v in d.items() if _representable(v))]
                    for (sc, sel), d in record.items())
      if res.get('ok') != want:
        return f'op {k}: operative_config_str() shows {res.get("ok")} but the calls so far imply {want}'
  rp = impl['replay']
  if not rp.get('text_parses'):
    return f'the operative config text does not parse back: {rp.get("error")}'
  if all_repr and case.get('_fixed_store'):
    firsts = [r for o, r in zip(case['ops'], impl['out']) if o['op'] == 'call']
    if rp.get('replay_error'):
      return f'replaying the calls on the parsed operative config failed: {rp["replay_error"]}'
    for j, (a, b) in enumerate(zip(firsts, rp['calls'])):
      if a.get('err') == 'RuntimeError' and 'missing' in a:
        continue  # D23: failed on a missing REQUIRED
      if gindom.strip(a) != gindom.strip(b):
        return f'replayed call {j} differs: first {gindom.strip(a)} replay {gindom.strip(b)}'
    if not rp['same_text'] and not any(a.get('err') == 'RuntimeError' and 'missing' in a for a in firsts):
      return f'replay produced a different operative text: {rp.get("text1")!r} vs {rp.get("text2")!r}'
  return None


def macro_oracle(case, impl):
  rp = impl['replay']
  unrepr = any(o['op'] == 'bind' and not _representable(o['val']) for o in case['ops'])
  if not rp.get('text_parses'):
    return f'the operative config text does not parse back: {rp.get("error")}\n{rp.get("text")}'
  if unrepr:
    return None
  firsts = [r for o, r in zip(case['ops'], impl['out']) if o['op'] == 'ecall']
  if any('err' in a for a in firsts):
    return None
  if rp.get('replay_error'):
    return f'replaying the calls on the parsed operative config failed: {rp["replay_error"]}\n{rp.get("text1")}'
  if gindom.strip(rp['first_log']) != gindom.strip(rp['second_log']):
    return (f'replaying the calls on the parsed operative config gave different arguments: first '
            f'{gindom.strip(rp["first_log"])} replay {gindom.strip(rp["second_log"])}\n{rp.get("text1") or ""}')
  if not rp['same_text'] and not any('err' in a for a in firsts):
    return f'replay produced a different operative text: {rp.get("text1")!r} vs {rp.get("text2")!r}'
  return None


def nontrivial(case, impl):
  if _dyn(case):
    return impl.get('operative_replays') is True
  if case.get('_kind') in ('singleton', 'methods', 'robust'):
    return True
  if case.get('_kind') == 'macro':
    return any(o['op'] == 'ecall' and 'ok' in r for o, r in zip(case['ops'], impl['out']))
  seen = {}
  for op, res in zip(case['ops'], impl['out']):
    if op['op'] == 'call' and 'ok' in res:
      key = (op['sel'], tuple(res['ok']['scope']))
      sup = (len(op['args']), tuple(sorted(k for k, _ in op['kwargs'])))
      if key in seen and seen[key] != sup:
        return True
      seen[key] = sup
  return False


def shrink(case):
  if _dyn(case):
    return
  if case.get('_kind') in ('singleton', 'methods', 'robust'):
    return
  ops = case['ops']
  for k in range(len(ops) - 1, -1, -1):
    if ops[k]['op'] == 'register':
      if any(o.get('_target') == ops[k]['obj'] or (o['op'] in ('bind',) and o['sel'] == ops[k]['_selector']) for o in ops):
        continue
    yield {'dom': 'gin', 'ops': ops[:k] + ops[k + 1:], '_fixed_store': case.get('_fixed_store')}


def classify(case, impl, model, why_oracle, why_model, findings):
  return None
