"""C07 — the operative config records exactly what Gin supplied and suffices to replay."""
import gen_gin as G
import gindom
from gindom import to_driver, compare  # noqa: F401
from props.c01 import tally, _overlay  # noqa: F401
from encode import decode

ID = 'C07'
DOMAIN = 'gin/call'
PROPS_FILES = ['Gin/Props/C07.lean']
ANCHOR_FILES = ['config.py']
RULE = ('C01 generator with allow/deny lists, signature defaults that are sometimes not literally representable '
        '(opaque objects) and bindings to opaque objects; 2-6 calls under random scopes with random caller-supplied / '
        'omitted splits, operative_config_str() parsed after every call; at the end the text is replayed on the real '
        'code (clear_config, parse_config(text), same calls) and received arguments and text are compared. '
        'non-trivial = at least 2 successful calls of one configurable with different caller-supplied parameter sets, '
        'or a call whose operative section mixes defaults and bindings; distinct = canonical ops')
TRUSTED_BASE = ['Lean 4.33 kernel', 'axioms ⊆ {propext, Classical.choice, Quot.sound}', 'JSON glue (Gin/Drv)',
                'harness gindom.py (incl. the line-based reader of operative_config_str text) / gen_gin.py',
                'repr/pprint of literal values is CPython\'s; values here are reference-free (C04/C05 cover references and macros)']
ASSUMPTIONS = ['replay is claimed for calls that did not fail on a missing REQUIRED parameter (a failed call still records '
               'signature defaults; see DESIGN §7 D23)']
EXPLANATION = ('Lean theorems about the operative parameters computed by phaseA (exact characterisation per parameter, '
               'exclusions) and the record update in State.call + differential comparison of the parsed '
               'operative_config_str() after every call + real replay of the text on the implementation.')


def gen_case(rng):
  regs = G.gen_registry(rng, rng.randint(1, 3), w_opaque_default=0.15)
  ops = list(regs)
  focus = G.rand_scope(rng, 3)
  scopes = [focus[:i] for i in range(len(focus) + 1)] + [['c']]
  body = []
  for _ in range(rng.randint(0, 8)):
    val = {'o': rng.randint(1, 3)} if rng.random() < 0.12 else None
    b = G.gen_bind(rng, rng.choice(regs), rng.choice(scopes), value=val)
    if b:
      if val is not None:
        b['_form'] = rng.choice(['tuple', 'list', 'str'])
        b['block'] = False
      body.append(b)
  fixed_store = rng.random() < 0.7   # all bindings precede all calls: the replay claim applies
  for _ in range(rng.randint(2, 6)):
    reg = rng.choice(regs)
    tgt = rng.choice(scopes)
    k = len(body) if fixed_store else rng.randint(len(body) // 2, len(body))
    body[k:k] = [G.gen_call(rng, reg, G.gen_enter(rng, tgt), w_required=0.05), {'op': 'opstr'}]
  ops += body
  ops += [{'op': 'operative'}, {'op': 'opstr'}]
  return {'dom': 'gin', 'ops': ops, '_fixed_store': fixed_store}


def gen_cases(rng, tier, boost=1):
  n = (900 if tier == 'quick' else 25000) * boost
  for _ in range(n):
    yield gen_case(rng)


def run_impl(case):
  """Normal run, then the replay experiment on the same interpreter state."""
  from encode import Opaque
  Opaque._all.clear()  # pylint: disable=protected-access
  s = gindom.Session()
  out = [s.run_op(op) for op in case['ops']]
  gin = s.gin
  text = gin.operative_config_str()
  replay = {'text_parses': True}
  try:
    gin.clear_config()
    gin.parse_config(text)
    second = []
    for op, res in zip(case['ops'], out):
      if op['op'] == 'call':
        second.append(s.run_op(op))
    replay['calls'] = second
    replay['same_text'] = gin.operative_config_str() == text
    if not replay['same_text']:
      replay['text1'], replay['text2'] = text, gin.operative_config_str()
  except Exception as e:  # pylint: disable=broad-except
    replay = {'text_parses': False, 'error': f'{type(e).__name__}: {e}'[:400], 'text': text}
  return {'out': out, 'replay': replay}


def _representable(v):
  if isinstance(v, dict):
    if 'o' in v or 'req' in v or 'set' in v or 'c' in v:
      return False
    if 'f' in v:
      return v['fin']
    for k in ('l', 't'):
      if k in v:
        return all(_representable(x) for x in v[k])
    if 'd' in v:
      return all(_representable(a) and _representable(b) for a, b in v['d'])
  return True


def oracle(case, impl):
  """C07 stated directly on the parsed operative_config_str()."""
  regs, binds = {}, {}
  record = {}     # (scope_str, sel) -> {param: value}   what the property says must be listed
  all_repr = True
  for k, (op, res) in enumerate(zip(case['ops'], impl['out'])):
    if op['op'] == 'register' and 'ok' in res:
      regs[op['obj']] = op
    elif op['op'] == 'bind' and 'ok' in res:
      binds.setdefault((op['scope'], op['sel']), {})[op['arg']] = op['val']
    elif op['op'] == 'call':
      reg = regs[op['_target']]
      if res.get('err') == 'ValueError' and 'ok' not in res:
        # invalid scope or REQUIRED in *args: nothing is recorded
        continue
      scope = res['ok']['scope'] if 'ok' in res else None
      if scope is None:
        scope = []
        for a in op['enter']:
          if a['k'] == 'name':
            scope = scope + a['v'].split('/')
          elif a['k'] == 'list':
            scope = list(a['v'])
          elif a['k'] == 'clear':
            scope = []
      ov = _overlay(binds, reg['_selector'], scope)
      posnames = [p[0] for p in reg['sig']['pos']]
      supplied = {n for n, v in zip(posnames, op['args']) if v != G.REQ}
      supplied |= {n for n, v in op['kwargs'] if v != G.REQ}
      allp = reg['sig']['pos'] + reg['sig']['kwonly']
      sec = record.setdefault(('/'.join(scope), reg['_selector']), {})
      cand = {}
      for n, d in allp:
        if d is not None and not ((reg['allow'] and n not in reg['allow']) or (reg['deny'] and n in reg['deny'])):
          if _representable(d['v']):
            cand[n] = d['v']
      cand.update(ov)
      for n, v in cand.items():
        if n in supplied:
          continue
        if not _representable(v):
          all_repr = False
          sec.pop(n, None) if False else None
          sec[n] = v
        else:
          sec[n] = v
    elif op['op'] == 'opstr':
      want = sorted([sc + '|' + sel, sorted([a, v] for a, v in d.items() if _representable(v))]
                    for (sc, sel), d in record.items())
      if res.get('ok') != want:
        return f'op {k}: operative_config_str() shows {res.get("ok")} but the calls so far imply {want}'
  rp = impl['replay']
  if not rp.get('text_parses'):
    return f'the operative config text does not parse back: {rp.get("error")}'
  if all_repr and case.get('_fixed_store'):
    firsts = [r for o, r in zip(case['ops'], impl['out']) if o['op'] == 'call']
    for j, (a, b) in enumerate(zip(firsts, rp['calls'])):
      if a.get('err') == 'RuntimeError' and 'missing' in a:
        continue  # D23: failed on a missing REQUIRED
      if gindom.strip(a) != gindom.strip(b):
        return f'replayed call {j} differs: first {gindom.strip(a)} replay {gindom.strip(b)}'
    if not rp['same_text'] and not any(a.get('err') == 'RuntimeError' and 'missing' in a for a in firsts):
      return f'replay produced a different operative text: {rp.get("text1")!r} vs {rp.get("text2")!r}'
  return None


def nontrivial(case, impl):
  seen = {}
  for op, res in zip(case['ops'], impl['out']):
    if op['op'] == 'call' and 'ok' in res:
      key = (op['sel'], tuple(res['ok']['scope']))
      sup = (len(op['args']), tuple(sorted(k for k, _ in op['kwargs'])))
      if key in seen and seen[key] != sup:
        return True
      seen[key] = sup
  return False


def shrink(case):
  ops = case['ops']
  for k in range(len(ops) - 1, -1, -1):
    if ops[k]['op'] == 'register':
      if any(o.get('_target') == ops[k]['obj'] or (o['op'] in ('bind',) and o['sel'] == ops[k]['_selector']) for o in ops):
        continue
    yield {'dom': 'gin', 'ops': ops[:k] + ops[k + 1:], '_fixed_store': case.get('_fixed_store')}


def classify(case, impl, model, why_oracle, why_model, findings):
  return None
