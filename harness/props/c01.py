"""C01 — injected arguments: caller's values over scope-layered bindings."""
import gen_gin as G
import gindom
from gindom import to_driver  # noqa: F401

ID = 'C01'
DOMAIN = 'gin/call'
PROPS_FILES = ['Gin/Props/C01.lean']
ANCHOR_FILES = ['config.py']
RULE = ('1-3 probe configurables (function / class with __init__ / class with __new__; configurable / register / '
        'external_configurable) with random signatures of 0-5 parameters (+*args/**kwargs), 0-8 bindings under '
        'prefixes and siblings of a focus scope of depth 0-4 over a 3-letter alphabet, 1-4 calls each under a chain '
        'of 0-4 config_scope entries with a random positional/keyword/omitted split; in a quarter of the cases the '
        'probes alter the mutable arguments they received and later calls / get_bindings must still see what was '
        'bound; every tenth case a bound method (instance method, classmethod or callable object whose first '
        'parameter has any name) made configurable on its own, run on the real code only; non-trivial = some call '
        'succeeds with at least one binding applying under a proper (non-root or overridden) prefix and at least '
        'one caller-supplied parameter; distinct = distinct canonical op list')
TRUSTED_BASE = ['Lean 4.33 kernel', 'axioms ⊆ {propext, Classical.choice, Quot.sound}',
                'JSON glue (Gin/Drv)', 'harness gindom.py / gen_gin.py / probes built with exec',
                'inspect.getfullargspec and Python call binding are modelled (Sig, pyBind), not verified']
ASSUMPTIONS = ['the probe signature handed to the mirror is the signature of the real probe function',
               'values are reference-free here, so evaluation (deepcopy) is the identity; C04 covers references']
EXPLANATION = ('Lean theorems about getBindings / wrapperCall (Gin/Call.lean) + differential run of generated '
               'registries, bindings, scope chains and calls on gin and on the mirror + an independent Python '
               'statement of C01 evaluated on what each probe received.')


def gen_case(rng):
  regs = G.gen_registry(rng, rng.randint(1, 3))
  ops = list(regs)
  if rng.random() < 0.2:
    # a function registered again (interactive mode) under the same name, with its positional parameters in another
    # order: the calls below go to the new function, with the new function's parameter names
    import copy
    cands = [r for r in regs if r['_kind'] == 'fn' and r['_api'] in ('configurable', 'external') and len(r['sig']['pos']) >= 2
             and not r.get('_decorated') and not r['allow'] and not r['deny']]
    if cands:
      old = rng.choice(cands)
      new = copy.deepcopy(old)
      new['obj'] = 90
      new['sig']['pos'] = sorted(new['sig']['pos'], key=lambda p: p[1] is not None)   # stable: parameters without default first
      new['sig']['pos'] = list(reversed([p for p in new['sig']['pos'] if p[1] is None])) + \
          list(reversed([p for p in new['sig']['pos'] if p[1] is not None]))
      if new['sig']['pos'] != old['sig']['pos']:
        ops += [{'op': 'interactive', 'on': True}, new, {'op': 'interactive', 'on': False}]
        regs[regs.index(old)] = new
  focus = G.rand_scope(rng)
  scopes = [focus[:i] for i in range(len(focus) + 1)]
  scopes += [focus[:i] + [rng.choice(G.SCOPE_ALPHA)] for i in range(len(focus) + 1)]  # siblings / extensions
  # look-alikes: the next component cut short or extended by a character ('a' vs 'ab', 'a/a' vs 'a/ab')
  for i in range(len(focus)):
    scopes.append(focus[:i] + [focus[i] + 'b'])
    if len(focus[i]) > 1:
      scopes.append(focus[:i] + [focus[i][:1]])
  body = []
  for _ in range(rng.randint(0, 8)):
    b = G.gen_bind(rng, rng.choice(regs), rng.choice(scopes))
    if b:
      body.append(b)
  ncalls = rng.randint(1, 4)
  for _ in range(ncalls):
    reg = rng.choice(regs)
    tgt = rng.choice(scopes) if rng.random() < 0.8 else G.rand_scope(rng)
    body.insert(rng.randint(len(body) // 2, len(body)),
                G.gen_call(rng, reg, G.gen_enter(rng, tgt, 0.03), w_required=rng.choice([0.0, 0.0, 0.0, 0.3])))
    if rng.random() < 0.3:
      body.append({'op': 'getb', 'sel': reg['_selector'], 'scope': tgt, 'inherit': rng.random() < 0.7})
  if rng.random() < 0.2:
    # a marker passed positionally for an earlier parameter and a real value, also positionally, for a later one
    # that has an applicable binding too: the caller's value must still win
    cand = [r for r in regs if len(G.sig_names(r['sig'], r['_kind'])[0]) >= 2 and not r['allow'] and not r['deny']]
    if cand:
      reg = rng.choice(cand)
      pos, _ = G.sig_names(reg['sig'], reg['_kind'])
      k = rng.randint(1, len(pos) - 1)
      tgt = rng.choice(scopes)
      for nm in pos[:k + 1]:
        if nm == pos[k] or rng.random() < 0.85:
          body.append({'op': 'bind', 'scope': '/'.join(tgt[:rng.randint(0, len(tgt))]), 'sel': reg['_selector'],
                       'arg': nm, 'val': G.gen_value(rng, 0), '_form': 'tuple', 'block': False})
      call = G.gen_call(rng, reg, G.gen_enter(rng, tgt, 0.0))
      call['args'] = call['args'][:1 if reg['_kind'] != 'fn' else 0] + \
          [G.REQ if i < k and rng.random() < 0.7 else G.caller_value(rng) for i in range(k + 1)]
      call['kwargs'] = [kv for kv in call['kwargs'] if kv[0] not in pos[:k + 1]]
      for key in ('_bad_enter', '_left_by'):
        call.pop(key, None)
      body.append(call)
  if rng.random() < 0.25:
    # callees that alter what they were handed (append to a list, add a key to a dict ...): what a parameter is bound
    # to stays what was bound, so every later call — same scope, a longer or shorter prefix, the root — and every
    # later get_bindings still sees the bound value
    for op in body:
      if op['op'] == 'call' and rng.random() < 0.8:
        op['_mutate'] = True
    cand = [r for r in regs if not r['allow'] and not r['deny'] and sum(G.sig_names(r['sig'], r['_kind']), [])]
    if cand:
      reg = rng.choice(cand)
      pos, kwo = G.sig_names(reg['sig'], reg['_kind'])
      tgt = rng.choice(scopes)
      held = rng.sample(pos + kwo, rng.randint(1, min(2, len(pos + kwo))))
      for nm in held:
        body.append({'op': 'bind', 'scope': '/'.join(tgt[:rng.randint(0, len(tgt))]), 'sel': reg['_selector'], 'arg': nm,
                     'val': rng.choice([{'l': [G.gen_value(rng, 1) for _ in range(rng.randint(0, 3))]},
                                        {'d': [[{'s': 'k'}, G.gen_value(rng, 1)]]}, {'d': []},
                                        {'t': [1, {'l': [G.gen_value(rng, 2)]}]}]),
                     '_form': rng.choice(['tuple', 'text']), 'block': False})
      for i in range(rng.randint(2, 4)):
        # the calls leave the held parameters to the configuration (the first one always, later ones mostly)
        at = tgt + [rng.choice(G.SCOPE_ALPHA)] if rng.random() < 0.25 else tgt
        call = G.gen_call(rng, reg, G.gen_enter(rng, at, 0.0), w_bad=0.0)
        keep = [nm for nm in held if i > 0 and rng.random() < 0.2]
        npos = len(call['args']) - (1 if reg['_kind'] != 'fn' else 0)
        for j, nm in enumerate(pos):
          if nm in held and nm not in keep and j < npos:
            npos = j
        call['args'] = call['args'][:npos + (1 if reg['_kind'] != 'fn' else 0)]
        call['kwargs'] = [kv for kv in call['kwargs'] if kv[0] not in held or kv[0] in keep]
        for key in ('_bad_enter', '_left_by'):
          call.pop(key, None)
        call['_mutate'] = rng.random() < 0.85
        body.append(call)
        if rng.random() < 0.3:
          body.append({'op': 'getb', 'sel': reg['_selector'], 'scope': tgt, 'inherit': rng.random() < 0.7})
  ops += body
  ops.append({'op': 'config'})
  if rng.random() < 0.25:
    # the configuration locked: further calls (overriding and not overriding bound parameters) see the same bindings
    ops.append({'op': 'finalize'})
    for _ in range(rng.randint(2, 4)):
      reg = rng.choice(regs)
      ops.append(G.gen_call(rng, reg, G.gen_enter(rng, rng.choice(scopes), 0.0)))
    ops.append({'op': 'config'})
  return {'dom': 'gin', 'ops': ops}


# a method registered on its own (`@gin.register` inside the class body) whose class is registered afterwards: the
# method moves under its class's name; calls through the registry — also through a wrapper obtained, or already
# called, before the class was registered — receive what is bound under `Class.method` — a finite table on the real
# code (the mirror has no calls of methods that change their name)
METHOD_ORDER_CASES = [{'dom': 'gin', '_kind': 'method_order', 'scope': sc, 'early_call': ec, 'api': api, 'bind_first': bf, 'ops': []}
                      for sc in ('', 'a', 'a/b') for ec in (False, True) for api in ('register', 'external')
                      for bf in (False, True)]


def run_method_order_case(case):
  import contextlib
  import core
  gin = core.fresh_gin()
  g = {'gin': gin, '__name__': 'mo'}
  exec('class Model:\n  def __init__(self, width=1):\n    self.width = width\n'  # pylint: disable=exec-used
       '  @gin.register\n  def fit(self, lr=0.1, steps=1):\n    return (self.width, lr, steps)\n', g)
  model_cls = g['Model']
  facts = {}
  try:
    early = gin.get_configurable(model_cls.fit)     # the wrapper of the still free-standing function
    if case['early_call']:
      facts['early'] = list(early(model_cls()))
    if case['api'] == 'register':
      gin.register(model_cls)
    else:
      gin.external_configurable(model_cls)
    pre = case['scope'] + '/' if case['scope'] else ''

    def binds():
      gin.bind_parameter(pre + 'Model.fit.steps', 7)
      gin.bind_parameter('mo.Model.fit.lr', 0.3)
      gin.bind_parameter(pre + 'Model.width', 4)
    if case['bind_first']:
      binds()
    late = gin.get_configurable(model_cls.fit)
    if not case['bind_first']:
      binds()
    with contextlib.ExitStack() as st:
      if case['scope']:
        st.enter_context(gin.config_scope(case['scope']))
      facts['through_class'] = list(gin.get_configurable(model_cls)().fit())
      facts['early_wrapper'] = list(early(model_cls()))
      facts['late_wrapper'] = list(late(model_cls()))
    facts['outside_scope'] = list(late(model_cls()))
  except Exception as e:  # pylint: disable=broad-except
    facts['error'] = f'{type(e).__name__}: {e}'[:300]
  facts['want'] = {'early': [1, 0.1, 1], 'through_class': [4, 0.3, 7], 'early_wrapper': [1, 0.3, 7], 'late_wrapper': [1, 0.3, 7],
                   'outside_scope': [1, 0.3, 7 if not case['scope'] else 1]}
  return {'out': [], 'facts': facts}


# a *bound* method (of an instance, or a classmethod taken from its class) made configurable on its own with
# external_configurable / register: the parameter the instance or class fills belongs to nobody — whatever it is
# called (`self`, `cls`, `this` ...) — and the caller's positional values are the parameters after it.  Random cases
# on the real code, judged by the oracle only (the mirror has no bound probes).
def gen_bound_case(rng):
  names = rng.sample(['width', 'depth', 'mode', 'rate', 'x'], rng.randint(1, 4))
  nkw = rng.randint(0, min(2, len(names) - 1))
  pos = [[n, None if rng.random() < 0.2 else -1 - i] for i, n in enumerate(names[:len(names) - nkw])]
  pos.sort(key=lambda p: p[1] is not None)
  kwonly = [[n, None if rng.random() < 0.2 else -10 - i] for i, n in enumerate(names[len(names) - nkw:])]
  focus = G.rand_scope(rng)
  scopes = [focus[:i] for i in range(len(focus) + 1)] + [focus[:i] + ['zz'] for i in range(len(focus) + 1)]
  binds, val = [], 100
  for n in names:
    for sc in rng.sample(scopes, min(len(scopes), rng.choice([0, 1, 1, 2, 3]))):
      val += 1
      binds.append(['/'.join(sc), n, val])
  rng.shuffle(binds)
  calls = []
  for _ in range(rng.randint(2, 4)):
    k = rng.randint(0, len(pos))
    if rng.random() < 0.6:
      k = max(k, 1)
    rest = [n for n, _ in pos[k:]] + [n for n, _ in kwonly]
    calls.append({'scope': rng.choice(scopes[:len(focus) + 1] + [focus]), 'args': [rng.randint(1, 9) for _ in range(k)],
                  'kwargs': [[n, rng.randint(11, 19)] for n in rest if rng.random() < 0.3]})
  flavour = rng.choice(['classmethod', 'classmethod', 'instance', 'instance', 'callable_object'])
  first = rng.choice(['cls', 'klass'] if flavour == 'classmethod' else ['self', 'self', 'this', 'me', 'obj'])
  return {'dom': 'gin', '_kind': 'bound_method', 'flavour': flavour, 'first': first, 'api': rng.choice(['external', 'register']),
          'pos': pos, 'kwonly': kwonly, 'binds': binds, 'calls': calls, 'ops': []}


def run_bound_case(case):
  import contextlib
  import core
  gin = core.fresh_gin()
  plist = [n if d is None else f'{n}={d}' for n, d in case['pos']]
  if case['kwonly']:
    plist += ['*'] + [n if d is None else f'{n}={d}' for n, d in case['kwonly']]
  allnames = [n for n, _ in case['pos'] + case['kwonly']]
  mname = '__call__' if case['flavour'] == 'callable_object' else 'make'
  src = 'class Maker:\n'
  if case['flavour'] == 'classmethod':
    src += '  @classmethod\n'
  src += f'  def {mname}({", ".join([case["first"]] + plist)}):\n'
  src += '    _ran.append(1)\n    return {' + ', '.join(f'{n!r}: {n}' for n in allnames) + '}\n'
  ran = []
  g = {'__name__': 'bm', '_ran': ran}
  exec(src, g)  # pylint: disable=exec-used
  cls = g['Maker']
  target = {'classmethod': lambda: cls.make, 'instance': lambda: cls().make, 'callable_object': cls}[case['flavour']]()
  facts = {'calls': []}
  try:
    if case['api'] == 'external':
      fn = gin.external_configurable(target, name='make', module='bm')
    else:
      gin.register('make', module='bm')(target)
      fn = gin.get_configurable(target)
    for sc, n, v in case['binds']:
      gin.bind_parameter((sc + '/' if sc else '') + 'bm.make.' + n, v)
  except Exception as e:  # pylint: disable=broad-except
    facts['error'] = f'{type(e).__name__}: {e}'[:300]
    return {'out': [], 'facts': facts}
  for c in case['calls']:
    del ran[:]
    try:
      with contextlib.ExitStack() as st:
        if c['scope']:
          st.enter_context(gin.config_scope('/'.join(c['scope'])))
        facts['calls'].append({'got': fn(*c['args'], **dict(c['kwargs']))})
    except Exception as e:  # pylint: disable=broad-except
      facts['calls'].append({'err': f'{type(e).__name__}: {e}'[:200], 'ran': bool(ran)})
  return {'out': [], 'facts': facts}


def bound_oracle(case, f):
  what = (f'bound {case["flavour"]} (first parameter {case["first"]!r}, {case["api"]}) with parameters '
          f'{case["pos"]} / keyword-only {case["kwonly"]}, bindings {case["binds"]}')
  if 'error' in f:
    return f'{what}: {f["error"]}'
  for c, r in zip(case['calls'], f['calls']):
    want = {}
    for i, (n, d) in enumerate(case['pos'] + case['kwonly']):
      if i < len(c['args']) and i < len(case['pos']):
        want[n] = c['args'][i]
      elif n in dict(c['kwargs']):
        want[n] = dict(c['kwargs'])[n]
      else:
        for k in range(len(c['scope']) + 1):      # shortest prefix first: a longer prefix overrides
          for sc, bn, v in case['binds']:
            if bn == n and sc == '/'.join(c['scope'][:k]):
              want[n] = v
        if n not in want and d is not None:
          want[n] = d
      if n not in want:
        want = None     # a parameter nobody supplies: the call cannot succeed
        break
    call = f'called in scope {"/".join(c["scope"])!r} with {c["args"]} {c["kwargs"]}'
    if want is None:
      if 'got' in r or r.get('ran'):
        return f'{what}: {call}: a parameter has no value, yet the body ran ({r})'
    elif r.get('got') != want:
      return f'{what}: {call}: received {r.get("got", r.get("err"))}, caller values over bindings over defaults give {want}'
  return None


def run_impl(case):
  if case.get('_kind') == 'method_order':
    return run_method_order_case(case)
  if case.get('_kind') == 'bound_method':
    return run_bound_case(case)
  return gindom.run_impl(case)


def compare(case, impl, model):
  if case.get('_kind') in ('method_order', 'bound_method'):
    return None
  return gindom.compare(case, impl, model)


def gen_cases(rng, tier, boost=1):
  yield from METHOD_ORDER_CASES
  n = (1500 if tier == 'quick' else 40000) * boost
  for i in range(n):
    if i % 10 == 0:
      yield gen_bound_case(rng)
    yield gen_case(rng)


def _overlay(binds, sel, scope):
  out = {}
  for i in range(len(scope) + 1):
    out.update(binds.get(('/'.join(scope[:i]), sel), {}))
  return out


def oracle(case, impl):
  """C01 stated directly: caller's values pass through, longest applicable prefix wins, nothing else."""
  if case.get('_kind') == 'bound_method':
    return bound_oracle(case, impl['facts'])
  if case.get('_kind') == 'method_order':
    f = impl['facts']
    if 'error' in f:
      return f'method registered before its class ({case}): {f["error"]}'
    for k, want in f['want'].items():
      if k in f and f[k] != want:
        return (f'method registered before its class (scope {case["scope"]!r}, called before the class was registered: '
                f'{case["early_call"]}, bound before the wrapper was fetched: {case["bind_first"]}): {k} received {f[k]}, '
                f'the bindings under Model / Model.fit imply {want}')
    return None
  regs, binds = {}, {}
  for k, (op, res) in enumerate(zip(case['ops'], impl['out'])):
    if op['op'] == 'register' and 'ok' in res:
      regs[op['obj']] = op
    elif op['op'] == 'bind' and 'ok' in res:
      binds.setdefault((op['scope'], op['sel']), {})[op['arg']] = op['val']
    elif op['op'] == 'call':
      if 'err' in res:
        if res.get('ran'):
          return f'op {k}: call failed with {res["err"]} but the body ran'
        continue
      reg = regs[op['_target']]
      rec = res['ok']
      scope = rec['scope']
      ov = _overlay(binds, reg['_selector'], scope)
      posnames = [p[0] for p in reg['sig']['pos']]
      allp = reg['sig']['pos'] + reg['sig']['kwonly']
      names = {p[0] for p in allp}
      got = dict((a, b) for a, b in rec['params'])
      given_pos = dict(zip(posnames, op['args']))
      given_kw = dict((a, b) for a, b in op['kwargs'])
      if any(v == G.REQ for v in list(given_pos.values()) + list(given_kw.values())):
        continue  # REQUIRED markers are C10's subject
      if rec['extra'] != op['args'][len(posnames):]:
        return f'op {k}: *args {rec["extra"]} != passed {op["args"][len(posnames):]}'
      for nm, dflt in allp:
        if nm in given_pos:
          want, why = given_pos[nm], 'passed positionally'
        elif nm in given_kw:
          want, why = given_kw[nm], 'passed by keyword'
        elif nm in ov:
          want, why = ov[nm], f'bound (overlay for scope {scope})'
        elif dflt is not None:
          want, why = dflt['v'], 'function default'
        else:
          return f'op {k}: call succeeded although {nm} has no value'
        if want == G.REQ:
          continue
        if got.get(nm) != want:
          return f'op {k}: parameter {nm} received {got.get(nm)} but {why} is {want}'
      wantkw = {a: b for a, b in ov.items() if a not in names}
      wantkw.update({a: b for a, b in given_kw.items() if a not in names})
      if dict((a, b) for a, b in rec['kw']) != wantkw:
        return f'op {k}: **kwargs received {rec["kw"]} expected {wantkw}'
    elif op['op'] == 'getb' and 'ok' in res:
      want = _overlay(binds, op['sel'], op['scope']) if op['inherit'] else dict(binds.get(('/'.join(op['scope']), op['sel']), {}))
      if dict((a, b) for a, b in res['ok']) != want:
        return f'op {k}: get_bindings {res["ok"]} expected {want}'
  return None


def nontrivial(case, impl):
  if case.get('_kind') == 'method_order':
    return True
  if case.get('_kind') == 'bound_method':
    return any('got' in r and c['args'] for c, r in zip(case['calls'], impl['facts'].get('calls', [])))
  binds = {}
  for op, res in zip(case['ops'], impl['out']):
    if op['op'] == 'bind' and 'ok' in res:
      binds.setdefault(op['sel'], set()).add((op['scope'], op['arg']))
    elif op['op'] == 'call' and 'ok' in res:
      scope = '/'.join(res['ok']['scope'])
      applying = [(s, a) for (s, a) in binds.get(op['sel'], ()) if s and (scope == s or scope.startswith(s + '/'))]
      if applying and (len(op['args']) > (1 if '_selfname' in op else 0) or op['kwargs']):
        return True
  return False


def tally(stats, case, impl):
  if case.get('_kind') == 'method_order':
    stats['method_order_cases'] = stats.get('method_order_cases', 0) + 1
    return
  if case.get('_kind') == 'bound_method':
    k = 'bound_method:' + case['flavour'] + '/' + case['api']
    stats[k] = stats.get(k, 0) + 1
    return
  for op, res in zip(case['ops'], impl['out']):
    k = op['op'] + ':' + ('ok' if 'ok' in res else res['err'])
    stats[k] = stats.get(k, 0) + 1
    if op['op'] == 'call' and 'ok' in res:
      d = 'call:depth=' + str(len(res['ok']['scope']))
      stats[d] = stats.get(d, 0) + 1
    if op['op'] == 'register':
      kk = 'reg:' + op['_kind'] + '/' + op['_api']
      stats[kk] = stats.get(kk, 0) + 1


def shrink(case):
  if case.get('_kind') == 'method_order':
    return
  if case.get('_kind') == 'bound_method':
    for fld in ('calls', 'binds'):
      for i in range(len(case[fld]) - 1, -1, -1):
        yield dict(case, **{fld: case[fld][:i] + case[fld][i + 1:]})
    return
  ops = case['ops']
  for k in range(len(ops) - 1, -1, -1):
    if ops[k]['op'] == 'register':
      if any(o.get('_target') == ops[k]['obj'] or (o['op'] in ('bind', 'getb') and o['sel'] == ops[k]['_selector'])
             for o in ops):
        continue
    yield {'dom': 'gin', 'ops': ops[:k] + ops[k + 1:]}
  for k, op in enumerate(ops):
    if op['op'] == 'call':
      for fld in ('args', 'kwargs', 'enter'):
        lo = 1 if (fld == 'args' and '_selfname' in op) else 0
        for i in range(len(op[fld]) - 1, lo - 1, -1):
          new = dict(op)
          new[fld] = op[fld][:i] + op[fld][i + 1:]
          yield {'dom': 'gin', 'ops': ops[:k] + [new] + ops[k + 1:]}


def classify(case, impl, model, why_oracle, why_model, findings):
  return None
