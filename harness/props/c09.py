"""C09 — config scopes nest, are restored on every exit path, and are private to a thread."""
import threading

import core
import gen_gin as G
from encode import decode, encode

ID = 'C09'
DOMAIN = 'scopes'
PROPS_FILES = ['Gin/Props/C09.lean']
ANCHOR_FILES = ['config.py']
RULE = ('1-4 real threads, each running its own random tree of nested `with gin.config_scope(arg)` blocks (arg: name, '
        "'a/b' and longer 'a/b/c/..' shorthand, explicit list, the very list the enclosing block yielded, None, '', "
        'invalid names / objects; depth up to 4), observations '
        '(current_scope() plus the value a scoped probe configurable receives; in half of the multi-thread cases also a call of '
        'one shared scoped callable with a scheduling point inside the call) and exceptions raised at random depth; '
        'threads advance one scheduling group at a time under a deterministic baton scheduler following a random '
        'schedule; non-trivial = at least 2 threads and at least one turn of another thread falls while a thread is '
        'inside a block, or (single thread) an exception leaves at least 2 nested blocks; distinct = canonical case')
TRUSTED_BASE = ['Lean 4.33 kernel', 'axioms ⊆ {propext, Classical.choice, Quot.sound}', 'JSON glue (Gin/Drv)',
                'harness props/c09.py (condition-variable baton scheduler, watchdog)',
                'threading.local semantics are exercised, not modelled: the model *has* one stack per thread']
ASSUMPTIONS = ['scheduling points are: before entering a block, before leaving it normally, before an observation, '
               'before raising; exception unwinding runs within one turn',
               'the store is not written during the run']
EXPLANATION = ('Lean theorems: items_restores (every exit path, any depth), enter_semantics, thread_private (every '
               'interleaving) about the scope mirror + differential run of real threads under a deterministic scheduler '
               '+ an independent naive per-thread interpreter as oracle.')


class Boom(Exception):
  pass


class Interrupt(BaseException):
  """Leaves blocks like KeyboardInterrupt does: not an Exception subclass."""


# ------------------------------------------------------------------ generator
def gen_arg(rng, w_invalid=0.08):
  r = rng.random()
  if r < w_invalid:
    return rng.choice([{'k': 'name', 'v': 'a//b'}, {'k': 'name', 'v': '1x'}, {'k': 'name', 'v': 'a/'},
                       {'k': 'invalid', 'v': 42}, {'k': 'list', 'v': ['a', 'b c']}, {'k': 'name', 'v': '/a'},
                       {'k': 'list', 'v': ['lst', 7]}, {'k': 'list', 'v': ['a', None]}, {'k': 'list', 'v': [3]},
                       {'k': 'invalid', 'v': 'cmp-raises'}])
  if r < 0.55:
    return {'k': 'name', 'v': rng.choice(G.ALPHA)}
  if r < 0.66:
    return {'k': 'name', 'v': rng.choice(G.ALPHA) + '/' + rng.choice(G.ALPHA)}
  if r < 0.72:
    # shorthand names of three and more components: every component is appended, in order
    return {'k': 'name', 'v': '/'.join(rng.choice(G.ALPHA) for _ in range(rng.randint(3, 5)))}
  if r < 0.85:
    return {'k': 'list', 'v': [rng.choice(G.ALPHA) for _ in range(rng.randint(0, 3))]}
  return {'k': 'clear', 'v': rng.choice([None, ''])}


def gen_items(rng, depth, budget):
  items = []
  n = rng.randint(1, 4)
  for _ in range(n):
    if budget[0] <= 0:
      break
    budget[0] -= 1
    r = rng.random()
    if depth >= 1 and rng.random() < 0.12:
      # a rejected / failing entry that is caught inside an active scope, then an observation
      inner = ({'k': 'block', 'arg': gen_arg(rng, w_invalid=1.0), 'body': [{'k': 'obs'}]}
               if rng.random() < 0.6 else
               {'k': 'block', 'arg': gen_arg(rng, 0.0), 'body': [{'k': 'raise', 'base': rng.random() < 0.5}]})
      items.append({'k': 'catch', 'body': [inner]})
      items.append({'k': 'obs'})
      continue
    if r < 0.4:
      items.append({'k': 'obs'})
    elif r < 0.47 and depth > 0:
      items.append({'k': 'raise', 'base': rng.random() < 0.35})
    elif r < 0.56 and depth < 4:
      items.append({'k': 'catch', 'body': gen_items(rng, depth, budget)})
    elif depth < 4:
      arg = gen_arg(rng)
      if depth >= 1 and rng.random() < 0.15:
        # the very list object the enclosing block handed out (`with config_scope(x) as s: with config_scope(s):`)
        # is entered again: the scope stays what it is, and so it does after leaving the inner block
        arg = {'k': 'same'}
      item = {'k': 'block', 'arg': arg, 'body': gen_items(rng, depth + 1, budget)}
      if arg['k'] == 'name' and depth >= 1 and rng.random() < 0.3:
        # the context-manager object is created when the thread starts (top level) and entered here:
        # a named scope extends the scope active *when the block is entered*
        item['_early'] = True
      items.append(item)
    else:
      items.append({'k': 'obs'})
  return items


def gen_case(rng, nthreads=None):
  nt = nthreads or rng.choice([1, 2, 2, 3, 4])
  threads = [gen_items(rng, 0, [rng.randint(4, 14)]) + [{'k': 'obs'}] for _ in range(nt)]
  binds = []
  for sc in ['', 'a', 'a/b', 'b', 'c', 'a/a', 'b/c/a']:
    if rng.random() < 0.6:
      binds.append([sc, rng.randint(0, 99)])
  total = sum(count_groups(t) for t in threads)
  schedule = [rng.randrange(nt) for _ in range(total + rng.randint(0, 6))]
  shared = nt >= 2 and rng.random() < 0.5
  # `_shared`: one scoped callable object (fetched once, under scope 'job') is called by every thread at every
  # observation, with a scheduling point *inside* the call - other threads call it while a call is in progress
  schedule += [t for t in range(nt) for _ in range(total * (2 if shared else 1))]  # let everybody finish
  return {'dom': 'scopes', 'threads': threads, 'binds': binds, 'schedule': schedule, '_shared': shared,
          '_ctx': len(threads) > 1 and rng.random() < 0.35}


def count_groups(items):
  n = 0
  for it in items:
    if it['k'] == 'catch':
      n += count_groups(it['body'])
      continue
    n += 1
    if it['k'] == 'block':
      n += count_groups(it['body']) + 1
  return n


def gen_cases(rng, tier, boost=1):
  n = (300 if tier == 'quick' else 10000) * boost
  for _ in range(n):
    yield gen_case(rng)
  if tier == 'thorough':
    yield from exhaustive_small()


def exhaustive_small():
  """All interleavings of two small fixed programs (thorough tier)."""
  import itertools
  a = [{'k': 'block', 'arg': {'k': 'name', 'v': 'a'}, 'body': [{'k': 'obs'}, {'k': 'raise'}]}, {'k': 'obs'}]
  b = [{'k': 'block', 'arg': {'k': 'list', 'v': ['b']}, 'body': [{'k': 'block', 'arg': {'k': 'name', 'v': '1x'}, 'body': []}]},
       {'k': 'obs'}]
  na, nb = 4, 4
  for pos in itertools.combinations(range(na + nb), na):
    sched = [0 if i in pos else 1 for i in range(na + nb)] + [0, 1] * 4
    yield {'dom': 'scopes', 'threads': [a, b], 'binds': [['a', 1], ['b', 2]], 'schedule': sched}


# ------------------------------------------------------------------ implementation run
class CmpRaises:
  def __eq__(self, other):
    raise RuntimeError('comparison raises')

  __hash__ = None


class Stepper:
  def __init__(self, n):
    self.cv = threading.Condition()
    self.turn = None
    self.waiting = [False] * n
    self.finished = [False] * n

  def checkpoint(self, tid):
    with self.cv:
      self.waiting[tid] = True
      self.cv.notify_all()
      while self.turn != tid:
        if not self.cv.wait(timeout=20):
          raise core.Infra('scheduler watchdog: worker stuck')
      self.turn = None
      self.waiting[tid] = False

  def finish(self, tid):
    with self.cv:
      self.finished[tid] = True
      self.cv.notify_all()

  def give_turn(self, tid):
    with self.cv:
      while not (self.waiting[tid] or self.finished[tid]):
        if not self.cv.wait(timeout=20):
          raise core.Infra('scheduler watchdog: thread never reached a scheduling point')
      if self.finished[tid]:
        return
      self.turn = tid
      self.cv.notify_all()
      while self.turn == tid or not (self.waiting[tid] or self.finished[tid]):
        if not self.cv.wait(timeout=20):
          raise core.Infra('scheduler watchdog: turn did not complete')


def run_impl(case):
  gin = core.fresh_gin()
  g = {'__name__': 'pm'}
  exec('def f(x=-1):\n  return x\n', g)  # pylint: disable=exec-used
  f = gin.configurable(g['f'])
  for sc, val in case['binds']:
    gin.bind_parameter((sc, 'pm.f', 'x'), decode(val, gin))
  n = len(case['threads'])
  st = Stepper(n)
  results = [None] * n
  tids = {}
  g['_inside'] = lambda: st.checkpoint(tids[threading.get_ident()]) if threading.get_ident() in tids else None
  g['_scope'] = lambda: list(gin.current_scope())
  exec('def g2(x=-1):\n  _inside()\n  return [x, _scope()]\n', g)  # pylint: disable=exec-used
  gin.configurable(g['g2'])
  gin.bind_parameter(('', 'pm.g2', 'x'), 111)
  gin.bind_parameter(('job', 'pm.g2', 'x'), 777)
  shared = gin.get_configurable('job/pm.g2') if case.get('_shared') else None

  def scope_arg(a):
    if a['k'] == 'name':
      return a['v']
    if a['k'] == 'list':
      return list(a['v'])
    if a['k'] == 'clear':
      return a.get('v')
    if a.get('v') == 'cmp-raises':
      return CmpRaises()
    return a.get('v', 42)

  def worker(tid):
    tids[threading.get_ident()] = tid
    sobs = []
    pobs = []
    early = {}

    def precreate(items):
      for it in items:
        if it['k'] == 'block' and it.get('_early'):
          early[id(it)] = gin.config_scope(scope_arg(it['arg']))
        if it['k'] in ('block', 'catch'):
          precreate(it['body'])
    precreate(case['threads'][tid])
    obs = []
    notes, held = [], []
    handed = []          # the lists handed out by the blocks the thread is inside of, innermost last
    fobs = []            # what the handle fetched at the previous observation point receives here
    handle = [None]
    outcome = 'normal'

    def run(items):
      for it in items:
        if it['k'] == 'catch':
          try:
            run(it['body'])
          except (Boom, Interrupt, ValueError, RuntimeError, TypeError):   # a non-string component is a TypeError
            pass
          continue
        st.checkpoint(tid)
        if it['k'] == 'obs':
          x = f()
          obs.append([list(gin.current_scope()), None if x == -1 else encode(x, gin)])
          if handle[0] is not None:
            fx = handle[0]()
            fobs.append(None if fx == -1 else encode(fx, gin))
          # get_configurable captures the scope active now (by selector string or by function object)
          handle[0] = gin.get_configurable('pm.f' if len(obs) % 2 else f)
          if shared is not None:
            sobs.append(shared())
          # a selector string with a scope of its own: that scope, not the active one extended by it
          px = gin.get_configurable('b/pm.f')()
          pobs.append(None if px == -1 else encode(px, gin))
        elif it['k'] == 'raise':
          raise (Interrupt() if it.get('base') else Boom())
        else:
          if it['arg']['k'] == 'same':
            # the identical list object that the enclosing block yielded (outside any block: a list equal to the active scope)
            cm = gin.config_scope(handed[-1] if handed else list(gin.current_scope()))
          elif id(it) in early:
            cm = early.pop(id(it))
          else:
            cm = gin.config_scope(scope_arg(it['arg']))
          with cm as yielded:
            # what the block hands out is the scope that is active inside it; lists handed out earlier stay what they were
            now = gin.current_scope()
            if list(yielded) != list(now):
              notes.append(f'`with config_scope(...) as s` handed out {list(yielded)} while the active scope is {list(now)}')
            held.append((now, list(now)))
            handed.append(yielded)
            try:
              run(it['body'])
            finally:
              handed.pop()
            st.checkpoint(tid)
    try:
      try:
        run(case['threads'][tid])
      except (Boom, Interrupt):
        outcome = 'raised'
      except (ValueError, RuntimeError, TypeError) as e:
        outcome = 'raised'
        del e
      try:
        depth = len(gin.config._SCOPE_MANAGER.active_scopes)  # pylint: disable=protected-access
      except Exception:  # pylint: disable=broad-except
        depth = None
      for lst, snap in held:
        if list(lst) != snap:
          notes.append(f'a list obtained from current_scope() while the scope was {snap} later read {list(lst)}')
          break
      results[tid] = {'obs': obs, 'fobs': fobs, 'top': list(gin.current_scope()), 'depth': depth, 'outcome': outcome,
                      'notes': notes[:3],
                      'scope_str': gin.current_scope_str(), 'sobs': sobs, 'pobs': pobs}
    except BaseException as e:  # pylint: disable=broad-except
      results[tid] = {'crash': core.err_class(e) + ': ' + str(e)}
    finally:
      st.finish(tid)

  if case.get('_ctx'):
    # workers that run in a copy of the spawning thread's contextvars context (what asyncio.to_thread and executor
    # wrappers do), made after the spawner has used the scope machinery: the stacks stay private all the same
    import contextvars
    with gin.config_scope('spawner'):
      list(gin.current_scope())
    ts = [threading.Thread(target=contextvars.copy_context().run, args=(worker, i), daemon=True) for i in range(n)]
  else:
    ts = [threading.Thread(target=worker, args=(i,), daemon=True) for i in range(n)]
  for t in ts:
    t.start()
  for tid in case['schedule']:
    st.give_turn(tid)
  for t in ts:
    t.join(timeout=20)
    if t.is_alive():
      raise core.Infra('worker thread did not finish')
  return {'threads': results, 'main_scope': list(gin.current_scope())}


def _inner_scope(arg, cur):
  if arg['k'] == 'name' and arg['v']:
    return cur + str(arg['v']).split('/')
  if arg['k'] == 'list':
    return list(arg['v'])
  if arg['k'] == 'same':
    return list(cur)
  return []


def resolve_same(items, cur):
  """For the model: entering the list a block handed out is entering the explicit list that is active there (the
  scope inside a block is a function of the program text alone)."""
  out = []
  for it in items:
    if it['k'] == 'catch':
      it = dict(it, body=resolve_same(it['body'], cur))
    elif it['k'] == 'block':
      new = _inner_scope(it['arg'], cur)
      arg = {'k': 'list', 'v': list(cur)} if it['arg']['k'] == 'same' else it['arg']
      it = dict(it, arg=arg, body=resolve_same(it['body'], new))
    out.append(it)
  return out


def to_driver(case, impl):
  return {'dom': 'scopes', 'threads': [resolve_same(t, []) for t in case['threads']], 'binds': case['binds'],
          'schedule': case['schedule']}


def compare(case, impl, model):
  if 'threads' not in model:
    return f'driver error: {model}'
  for tid, (a, b) in enumerate(zip(impl['threads'], model['threads'])):
    if 'crash' in a:
      return f'thread {tid} crashed: {a["crash"]}'
    if not b['done']:
      return f'thread {tid}: model did not finish under this schedule (harness schedule too short)'
    if a['obs'] != b['obs']:
      return f'thread {tid}: observations impl {a["obs"]} model {b["obs"]}'
    want = expected_fetched(b['obs'])
    if a.get('fobs', want) != want:
      return (f'thread {tid}: configurables fetched with get_configurable at each observation point and called at the next '
              f'received {a["fobs"]}; the scopes captured at fetch time give {want}')
    if a['top'] != b['top'] or (a['depth'] is not None and a['depth'] != b['depth']):
      return f'thread {tid}: final scope impl {a["top"]} depth {a["depth"]}; model {b["top"]} depth {b["depth"]}'
    t = model['tree'][tid]
    if t['obs'] != b['obs'] or t['depth'] != b['depth'] or (a['outcome'] == 'raised') != t['raised']:
      return f'thread {tid}: tree semantics {t} vs step semantics {b} vs impl outcome {a["outcome"]}'
  if impl['main_scope'] != []:
    return f'main thread scope changed: {impl["main_scope"]}'
  return None


def expected_fetched(obs):
  """A handle fetched under a non-empty scope runs in that scope wherever it is called; fetched at top
  level it is the plain configurable and runs in the caller's scope."""
  return [(obs[i - 1][1] if obs[i - 1][0] else obs[i][1]) for i in range(1, len(obs))]


# ------------------------------------------------------------------ independent oracle
def _valid(s):
  import re
  return isinstance(s, str) and bool(re.match(r'^([a-zA-Z_]\w*\.)*[a-zA-Z_]\w*$', s))


def naive(items, cur, binds, obs):
  """Per-thread meaning of a program, ignoring every other thread. Returns False if it raised."""
  for it in items:
    if it['k'] == 'obs':
      x = None
      for i in range(len(cur) + 1):
        x = binds.get('/'.join(cur[:i]), x)
      obs.append([list(cur), x])
    elif it['k'] == 'raise':
      return False
    elif it['k'] == 'catch':
      naive(it['body'], cur, binds, obs)
    else:
      a = it['arg']
      if a['k'] == 'name' and a['v']:
        new = cur + a['v'].split('/')
      elif a['k'] == 'list':
        new = list(a['v'])
      elif a['k'] == 'same':
        new = list(cur)     # the list the enclosing block handed out is the scope active there
      elif a['k'] == 'clear':
        new = []
      else:
        return False
      if not all(_valid(c) for c in new):
        return False
      if not naive(it['body'], new, binds, obs):
        return False
  return True


def oracle(case, impl):
  binds = {sc: v for sc, v in case['binds']}
  for tid, prog in enumerate(case['threads']):
    got = impl['threads'][tid]
    if 'crash' in got:
      return f'thread {tid} crashed: {got["crash"]}'
    if got.get('notes'):
      return f'thread {tid}: {got["notes"][0]}'
    obs = []
    ok = naive(prog, [], binds, obs)
    if got['obs'] != obs:
      return f'thread {tid}: alone it observes {obs}, under the schedule it observed {got["obs"]}'
    if got.get('fobs') != expected_fetched(obs):
      return (f'thread {tid}: a configurable fetched under one scope and called under another does not run in the scope '
              f'captured at fetch time: received {got.get("fobs")}, expected {expected_fetched(obs)}')
    want_b = binds.get('b', binds.get('', None))
    badp = [x for x in got.get('pobs', []) if x != want_b]
    if badp:
      return (f"thread {tid}: get_configurable('b/pm.f') fetched under an active scope must run in [b] and receive {want_b}; "
              f'it received {badp[:3]}')
    bad = [x for x in got.get('sobs', []) if x != [777, ['job']]]
    if bad:
      return (f'thread {tid}: the shared callable fetched under scope job must run in [job] and receive 777 whoever '
              f'else is inside it at the time; it saw {bad[:3]}')
    if got['top'] != [] or got['scope_str'] != '':
      return f'thread {tid}: active scope after all blocks is {got["top"]} (outcome {got["outcome"]}), expected []'
    if (got['outcome'] == 'raised') != (not ok):
      return f'thread {tid}: outcome {got["outcome"]}, expected {"normal" if ok else "raised"}'
  if impl['main_scope'] != []:
    return f'main thread scope is {impl["main_scope"]}'
  return None


def nontrivial(case, impl):
  if len(case['threads']) >= 2:
    return True

  def deep_raise(items, d):
    for it in items:
      if it['k'] == 'raise' and d >= 2:
        return True
      if it['k'] == 'catch' and deep_raise(it['body'], d):
        return True
      if it['k'] == 'block':
        if it['arg']['k'] == 'invalid' and d >= 2:
          return True
        if deep_raise(it['body'], d + 1):
          return True
    return False
  return deep_raise(case['threads'][0], 0)


def tally(stats, case, impl):
  k = 'threads=%d' % len(case['threads'])
  stats[k] = stats.get(k, 0) + 1
  for t in impl['threads']:
    if 'outcome' in t:
      kk = 'outcome:' + t['outcome']
      stats[kk] = stats.get(kk, 0) + 1
      stats['observations'] = stats.get('observations', 0) + len(t['obs'])
  stats['turns'] = stats.get('turns', 0) + len(case['schedule'])


def shrink(case):
  for tid in range(len(case['threads'])):
    if len(case['threads']) > 1:
      ths = case['threads'][:tid] + case['threads'][tid + 1:]
      sched = [t if t < tid else t - 1 for t in case['schedule'] if t != tid]
      yield dict(case, threads=ths, schedule=sched)
  for tid, prog in enumerate(case['threads']):
    for i in range(len(prog)):
      ths = list(case['threads'])
      ths[tid] = prog[:i] + prog[i + 1:]
      yield dict(case, threads=ths)
    for i, it in enumerate(prog):
      if it['k'] in ('block', 'catch'):
        ths = list(case['threads'])
        ths[tid] = prog[:i] + it['body'] + prog[i + 1:]
        yield dict(case, threads=ths)


def classify(case, impl, model, why_oracle, why_model, findings):
  return None
