"""C04 — references deliver the configurable or a fresh result, in the right scope."""
import gen_gin as G
import gindom
from gindom import run_impl, compare  # noqa: F401


def _dyn(case):
  return case.get('dom') == 'dyn'


def to_driver(case, impl):
  if _dyn(case):
    from props import c19
    return c19.to_driver(case, impl)
  return gindom.to_driver(case, impl)
from props.c01 import _overlay

ID = 'C04'
DOMAIN = 'gin/eval'
PROPS_FILES = ['Gin/Props/C04.lean']
ANCHOR_FILES = ['config.py', 'config_parser.py']
RULE = ('[table on the real code: one function registered under two names with bindings of their own, scoped references to both in every order] 1-2 consumer probes and 2-3 target probes (all parameters defaulted); target parameters bound per scope; '
        'consumer parameters bound to values in which @target / @scope/target() references are nested inside lists, '
        'tuples and dict keys/values, targets possibly referring to further targets (acyclic, depth <= 3); 2-5 consuming '
        'calls under random ambient scopes with random caller-supplied parameters (positional / keyword, some of them '
        'gin.REQUIRED; in some cases the bound parameters carry the signature default gin.REQUIRED), some bindings parsed with skip_unknown=True, every probe '
        'mutating each container it receives; the full per-target call log, the store and queries are observed. '
        'non-trivial = at least one evaluated reference nested in a container is evaluated and at least one call '
        'overrides a reference-bound parameter; distinct = canonical ops')
TRUSTED_BASE = ['Lean 4.33 kernel', 'axioms ⊆ {propext, Classical.choice, Quot.sound}', 'JSON glue (Gin/Drv)',
                'harness gindom.py (probes, identification of delivered configurables by calling them under a sentinel scope)',
                'copy.deepcopy traversal order (dict order, key before value, left to right) is mirrored, not verified']
ASSUMPTIONS = ['each textual occurrence of a reference is a distinct object (deepcopy memoisation of one shared object is outside the model)',
               'configurations are acyclic (fuel); aliasing cannot be exhibited by the immutable model: it is detected as disagreement']
EXPLANATION = ('Lean theorems about the fuel-indexed evaluator (frame: evaluation never writes the configuration; plain '
               'references deliver the configurable; caller-supplied parameters are not evaluated; scoped references run '
               'under their own scope) + differential comparison of per-target call logs + mutation of received containers.')

TARGETS = ['t.leaf', 't.mid', 'u.top']


def target_reg(sel, obj):
  module, leaf = sel.rsplit('.', 1)
  return {'op': 'register', 'name': leaf, 'nameValid': True, 'module': module, 'moduleValid': True,
          'sig': {'pos': [['p', {'v': 0}], ['q', {'v': None}]], 'kwonly': [], 'varargs': False, 'varkw': False},
          'allow': [], 'deny': [], 'listTypesOk': True, 'obj': obj, 'method': False, 'methods': [],
          '_kind': 'fn', '_api': 'configurable', '_pymodule': module, '_selector': sel}


def gen_ref(rng, targets, w_eval=0.7):
  t = rng.choice(targets)
  # reference scopes that are suffixes / prefixes / permutations of the ambient scopes used below
  scopes = rng.choice([[], [], ['a'], ['b'], ['a', 'b'], ['c'], ['b', 'a'], ['c', 'b']])
  return {'ref': [scopes, t, rng.random() < w_eval]}


def gen_refval(rng, targets, depth=0):
  r = rng.random()
  if depth >= 2 or r < 0.45:
    return gen_ref(rng, targets) if rng.random() < 0.8 else G.gen_value(rng, 2)
  n = rng.randint(1, 3)
  k = rng.randint(0, 2)
  if k == 0:
    return {'l': [gen_refval(rng, targets, depth + 1) for _ in range(n)]}
  if k == 1:
    return {'t': [gen_refval(rng, targets, depth + 1) for _ in range(n)]}
  keys = [1, {'s': 'k'}]
  if rng.random() < 0.3:
    keys.append(gen_ref(rng, targets, 1.0))
  if rng.random() < 0.2:
    # two references to one configurable that differ in their scope only: two keys, two calls
    t = rng.choice(targets)
    keys = [{'ref': [['a'], t, True]}, {'ref': [['c', 'b'], t, True]}, 1]
    n = max(n, 2)
  from encode import canon
  keys = sorted(keys[:n], key=canon)
  return {'d': [[kk, gen_refval(rng, targets, depth + 1)] for kk in keys]}


def gen_case(rng):
  ntar = rng.randint(2, 3)
  targets = TARGETS[:ntar]
  ops = [target_reg(s, 50 + i) for i, s in enumerate(targets)]
  consumers = G.gen_registry(rng, rng.randint(1, 2))
  for c in consumers:  # consuming calls must not fail for a missing argument: every parameter gets a default
    for plist in (c['sig']['pos'], c['sig']['kwonly']):
      for p in plist:
        if p[1] is None and p[0] not in ('self', 'cls'):
          p[1] = {'v': None}
  ops += consumers
  scopes = [[], ['a'], ['a', 'b'], ['c'], ['c', 'b'], ['b']]
  flat = rng.random() < 0.5
  # target bindings: plain values per scope; in non-flat cases a target may refer to an earlier target
  for i, t in enumerate(targets):
    for _ in range(rng.randint(0, 3)):
      val = rng.randint(1, 50)
      if not flat and i > 0 and rng.random() < 0.5:
        val = gen_refval(rng, targets[:i], 1)
      ops.append({'op': 'bind', 'scope': '/'.join(rng.choice(scopes)), 'sel': t, 'arg': rng.choice(['p', 'q']),
                  'val': val, '_form': 'text', 'block': False})
  # consumer bindings with nested references
  for c in consumers:
    cls = [n for n, k in G.param_classes(c).items() if k == 'valid']
    for _ in range(rng.randint(1, 4)):
      if cls:
        ops.append({'op': 'bind', 'scope': '/'.join(rng.choice(scopes)), 'sel': c['_selector'], 'arg': rng.choice(cls),
                    'val': gen_refval(rng, targets), '_form': rng.choice(['text', 'text', 'tuple', 'block']),
                    'block': False})
        ops[-1]['block'] = ops[-1]['_form'] == 'block'
        if ops[-1]['_form'] in ('text', 'block') and rng.random() < 0.3:
          ops[-1]['_skip'] = True   # every name is known: skip_unknown must change nothing
        if rng.random() < 0.25:
          ops[-1]['_parse_enter'] = [{'k': 'name', 'v': rng.choice(['setup', 'a', 'c/b'])}]
  if rng.random() < 0.3:
    # a mutable value that is no list, tuple or dict (only an API call can bind one): consumers mutate their copy only
    for c in consumers:
      cls = [n for n, k in G.param_classes(c).items() if k == 'valid']
      if cls:
        ops.append({'op': 'bind', 'scope': '/'.join(rng.choice(scopes)), 'sel': c['_selector'], 'arg': rng.choice(cls),
                    'val': rng.choice([{'set': [1, 2], 'm': 1}, {'l': [1, {'set': [3], 'm': 1}]}, {'set': [], 'm': 1}]),
                    '_form': 'tuple', 'block': False})
  if rng.random() < 0.4:
    # parameters Gin has a (reference-holding) value for are declared with the signature default gin.REQUIRED: Gin
    # supplies them as before, and when the caller supplies one the references bound to it are not called either
    for c in consumers:
      bound = {o['arg'] for o in ops if o['op'] == 'bind' and o['sel'] == c['_selector']}
      for plist in (c['sig']['pos'], c['sig']['kwonly']):
        for p in plist:
          if p[0] in bound and p[1] is not None and rng.random() < 0.7:
            p[1] = {'v': G.REQ}
  ops.append({'op': 'config'})
  if rng.random() < 0.35:
    ops.append({'op': 'finalize'})    # the same calls on a locked configuration
  for _ in range(rng.randint(2, 5)):
    c = rng.choice(consumers)
    call = G.gen_call(rng, c, G.gen_enter(rng, rng.choice(scopes)), w_required=rng.choice([0.0, 0.0, 0.3]), w_bad=0.0)
    call['op'] = 'ecall'
    call['_mutate'] = True
    ops.append(call)
  ops += [{'op': 'log'}, {'op': 'config'}]
  return {'dom': 'gin', 'ops': ops, '_flat': flat}


# one Python function registered under two names, each with bindings of its own: a reference names a
# *configurable*, not the function behind it - a finite table on the real code (the probes of the mirror are
# identified by their function, so two registrations of one function cannot be told apart there)
ALIAS_CASES = [{'dom': 'gin', 'kind': 'alias', 'api': api, 'evaluate': ev, 'scope': sc, 'order': order, 'ops': []}
               for api in ('external', 'register') for ev in (True, False) for sc in ('', 's', 's/t')
               for order in ('ab', 'ba', 'aba')]


def run_alias_case(case):
  import core
  gin = core.fresh_gin()

  def f(p=0, q=None):
    return ('f', p, q)
  if case['api'] == 'external':
    gin.external_configurable(f, 'first', module='t')
    gin.external_configurable(f, 'second', module='t')
  else:
    gin.register('first', module='t')(f)
    gin.register('second', module='t')(f)

  @gin.configurable
  def consumer(a=None, b=None, c=None):
    return (a, b, c)
  sc = case['scope']
  pre = sc + '/' if sc else ''
  gin.bind_parameter('t.first.p', 1)
  gin.bind_parameter('t.second.p', 2)
  if sc:
    gin.bind_parameter(pre + 't.first.p', 11)
    gin.bind_parameter(pre + 't.second.q', 22)
  call = '()' if case['evaluate'] else ''
  names = {'a': 'first', 'b': 'second'}
  params = ['a', 'b', 'c']
  text = ''.join(f'consumer.{params[i]} = @{pre}t.{names[ch]}{call}\n' for i, ch in enumerate(case['order']))
  facts = {}
  try:
    gin.parse_config(text)
    got = consumer()
    if not case['evaluate']:
      got = tuple(g() if g is not None else None for g in got)
    facts['got'] = [list(g) if g is not None else None for g in got]
  except Exception as e:  # pylint: disable=broad-except
    facts['error'] = f'{type(e).__name__}: {e}'[:200]
  want = {'first': ['f', 11 if sc else 1, None], 'second': ['f', 2, 22 if sc else None]}
  facts['want'] = [want[names[ch]] for ch in case['order']] + [None] * (3 - len(case['order']))
  return {'out': [], 'facts': facts}


# a referenced configurable that does not return: whatever it raises (an Exception, or a BaseException such as
# SystemExit / KeyboardInterrupt / GeneratorExit that the caller catches), the reference's scope is left again and later
# calls run their unscoped references under the scope that is active then - a finite table on the real code (the
# probes of the mirror always return)
RAISE_CASES = [{'dom': 'gin', 'kind': 'raises', 'exc': exc, 'refscope': rs, 'ambient': amb, 'evaluate': ev, 'ops': []}
               for exc in ('ValueError', 'SystemExit', 'KeyboardInterrupt', 'GeneratorExit', 'BaseMarker')
               for rs in ('job', 'job/step', '') for amb in ('', 'outer') for ev in (True, False)]


def run_raises_case(case):
  import contextlib
  import core
  gin = core.fresh_gin()

  class BaseMarker(BaseException):
    pass
  exc_cls = {'ValueError': ValueError, 'SystemExit': SystemExit, 'KeyboardInterrupt': KeyboardInterrupt,
             'GeneratorExit': GeneratorExit, 'BaseMarker': BaseMarker}[case['exc']]
  state = {'fail': True}
  g = {'__name__': 'rz', 'gin': gin, 'state': state, 'exc_cls': exc_cls}
  exec('def step(n=0):\n  if state["fail"]:\n    raise exc_cls("stop")\n  return ("step", list(gin.current_scope()), n)\n'  # pylint: disable=exec-used
       'def where(tag=None):\n  return ("where", list(gin.current_scope()), tag)\n'
       'def consumer(dep=None, here=None):\n  return (dep, here)\n', g)
  step, where, consumer = (gin.configurable(g[n]) for n in ('step', 'where', 'consumer'))
  del step, where
  rs = case['refscope']
  ref = ('@' + (rs + '/' if rs else '') + 'rz.step') + ('()' if case['evaluate'] else '')
  gin.parse_config(f'rz.consumer.dep = {ref}\nrz.consumer.here = @rz.where()\njob/rz.where.tag = "job"\n')
  facts = {}
  amb = case['ambient']

  def call():
    with contextlib.ExitStack() as st:
      if amb:
        st.enter_context(gin.config_scope(amb))
      dep, here = consumer()
      if not case['evaluate']:
        dep = dep()
      return [list(dep), list(here), list(gin.current_scope())]
  try:
    try:
      call()
      facts['first'] = 'returned'
    except exc_cls:
      facts['first'] = 'raised'
    facts['scope_after_failure'] = list(gin.current_scope())
    state['fail'] = False
    facts['second'] = call()
    facts['scope_after'] = list(gin.current_scope())
  except BaseException as e:  # pylint: disable=broad-except
    facts['error'] = f'{type(e).__name__}: {e}'[:300]
  ambient = [amb] if amb else []
  facts['want'] = {'first': 'raised', 'scope_after_failure': [], 'scope_after': [],
                   'second': [['step', (rs.split('/') if rs else ambient), 0], ['where', ambient, None], ambient]}
  return {'out': [], 'facts': facts}


def run_impl(case):  # noqa: F811
  if _dyn(case):
    from props import c19
    return c19.run_impl(case)
  if case.get('kind') == 'raises':
    return run_raises_case(case)
  if case.get('kind') == 'alias':
    return run_alias_case(case)
  return gindom.run_impl(case)


def compare(case, impl, model):  # noqa: F811
  if _dyn(case):
    from props import c19
    return c19.compare(case, impl, model)
  if case.get('kind') in ('alias', 'raises'):
    return None
  return gindom.compare(case, impl, model)


def gen_cases(rng, tier, boost=1):
  yield from ALIAS_CASES
  yield from RAISE_CASES
  # references under dynamic registration (files of the C19 generator that hold `@name` / `@scope/name()` values): what
  # a reference delivers after later files re-registered its class is judged by C19's machinery
  from props import c19
  want, seen = (300 if tier == 'quick' else 3000) * boost, 0
  for case in c19.gen_cases(rng, 'thorough', boost):
    if any(st.get('k') == 'bindref' for u in case['units'] for st in u):
      yield case
      seen += 1
      if seen >= want:
        break
  n = (700 if tier == 'quick' else 20000) * boost
  for _ in range(n):
    yield gen_case(rng)


def _count_refs(v, counts, evaluated_only=True):
  if isinstance(v, dict):
    if 'ref' in v:
      if v['ref'][2]:
        counts.append(v['ref'])
    elif 'l' in v or 't' in v:
      for x in v.get('l', v.get('t')):
        _count_refs(x, counts)
    elif 'd' in v:
      for k, x in v['d']:
        _count_refs(k, counts)
        _count_refs(x, counts)


def oracle(case, impl):
  """Independent statement (flat configurations): call counts, scopes, and immutability of the store."""
  if _dyn(case):
    from props import c19
    return c19.oracle(case, impl)
  if case.get('kind') == 'raises':
    f = impl['facts']
    if 'error' in f:
      return f'a referenced configurable that raises {case["exc"]} ({case}): {f["error"]}'
    for k, want in f['want'].items():
      if f.get(k) != want:
        return (f'reference {"@" + case["refscope"] + "/step" if case["refscope"] else "@step"} (evaluated: {case["evaluate"]}) whose '
                f'configurable raised {case["exc"]} under ambient scope {case["ambient"]!r}: {k} is {f.get(k)}, expected {want}')
    return None
  if case.get('kind') == 'alias':
    f = impl['facts']
    if 'error' in f:
      return f'two registrations of one function, references {case["order"]} under scope {case["scope"]!r}: {f["error"]}'
    if f['got'] != f['want']:
      return (f'two registrations of one function: the references (order {case["order"]}, scope {case["scope"]!r}, '
              f'evaluated={case["evaluate"]}) delivered {f["got"]}, their own bindings imply {f["want"]}')
    return None
  outs = impl['out']
  ops = case['ops']
  configs = [r for o, r in zip(ops, outs) if o['op'] == 'config']
  if len(configs) >= 2 and configs[0] != configs[-1]:
    return f'the store changed although no binding was made: before {configs[0]} after {configs[-1]}'
  if not case.get('_flat'):
    return None
  regs, binds = {}, {}
  expected = {}    # target -> list of scopes it must have run under, in order (as multiset per call)
  for k, (op, res) in enumerate(zip(ops, outs)):
    if op['op'] == 'register' and 'ok' in res:
      regs[op['obj']] = op
    elif op['op'] == 'bind' and 'ok' in res:
      binds.setdefault((op['scope'], op['sel']), {})[op['arg']] = op['val']
    elif op['op'] == 'ecall' and 'ok' in res:
      reg = regs[op['_target']]
      scope = []
      for a in op['enter']:
        if a['k'] == 'name':
          scope = scope + a['v'].split('/')
        elif a['k'] == 'list':
          scope = list(a['v'])
        elif a['k'] == 'clear':
          scope = []
      ov = _overlay(binds, reg['_selector'], scope)
      posnames = [p[0] for p in reg['sig']['pos']]
      supplied = ({n for n, v in zip(posnames, op['args']) if v != G.REQ} |
                  {n for n, v in op['kwargs'] if v != G.REQ})
      refs = []
      for n, v in ov.items():
        if n not in supplied:
          _count_refs(v, refs)
      for scopes_, tsel, _ in refs:
        expected.setdefault(tsel, []).append(scopes_ if scopes_ else scope)
    elif op['op'] == 'ecall' and 'err' in res:
      return None  # a failing consumer call: counting is left to the mirror
    elif op['op'] == 'log' and 'ok' in res:
      got = {sel: [e[0] for e in evs] for sel, evs in res['ok'] if sel in TARGETS}
      for t in set(expected) | set(got):
        if sorted(map(tuple, expected.get(t, []))) != sorted(map(tuple, got.get(t, []))):
          return (f'target {t}: ran under scopes {got.get(t, [])} but the evaluated references Gin had to supply '
                  f'imply {expected.get(t, [])}')
  return None


def nontrivial(case, impl):
  if _dyn(case):
    return bool(impl.get('ref_effects'))
  if case.get('kind') in ('alias', 'raises'):
    return True
  nested = any(o['op'] == 'bind' and isinstance(o['val'], dict) and any(k in o['val'] for k in ('l', 't', 'd'))
               for o in case['ops'])
  override = any(o['op'] == 'ecall' and (len(o['args']) > (1 if '_selfname' in o else 0) or o['kwargs'])
                 for o in case['ops'])
  logged = any(o['op'] == 'log' and r.get('ok') for o, r in zip(case['ops'], impl['out']))
  return nested and override and logged


def tally(stats, case, impl):
  if _dyn(case):
    stats['dynamic_registration_cases'] = stats.get('dynamic_registration_cases', 0) + 1
    return
  if case.get('kind') in ('alias', 'raises'):
    stats['alias_table'] = stats.get('alias_table', 0) + 1
    return
  for op, res in zip(case['ops'], impl['out']):
    k = op['op'] + ':' + ('ok' if 'ok' in res else res['err'])
    stats[k] = stats.get(k, 0) + 1
    if op['op'] == 'log' and 'ok' in res:
      stats['probe_calls'] = stats.get('probe_calls', 0) + sum(len(e) for _, e in res['ok'])
  stats['flat'] = stats.get('flat', 0) + (1 if case.get('_flat') else 0)


def shrink(case):
  if _dyn(case):
    return
  if case.get('kind') in ('alias', 'raises'):
    return
  ops = case['ops']
  for k in range(len(ops) - 1, -1, -1):
    if ops[k]['op'] in ('register', 'log'):
      continue
    yield dict(case, ops=ops[:k] + ops[k + 1:])


def classify(case, impl, model, why_oracle, why_model, findings):
  return None
