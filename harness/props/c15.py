"""C15 — skip_unknown drops exactly the statements that target unknown names."""
import gen_gin as G
import gen_stmts as S
import gindom


def to_driver(case, impl):
  if case.get('dom') == 'dyn':
    from props import c19
    return c19.to_driver(case, impl)
  return gindom.to_driver(case, impl)


def compare(case, impl, model):
  if case.get('dom') == 'dyn':
    from props import c19
    return c19.compare(case, impl, model)
  return gindom.compare(case, impl, model)

ID = 'C15'
DOMAIN = 'gin/stmts'
PROPS_FILES = ['Gin/Props/C15.lean', 'Gin/Props/C15b.lean']
ANCHOR_FILES = ['config.py']
RULE = ('2-3 registered probes and 2-3 unknown names; a text of 3-10 statements mixing bindings and blocks of known and '
        'unknown targets, references to known and unknown configurables inside applied bindings and inside macros, '
        'imports of present and missing modules, in a third of the cases an import of a module that registers a '
        'configurable which the text names before and after that import; parsed with skip_unknown in {False, True, list, tuple, set (of some of the '
        'unknown names)}; then the store, a consuming call through a placeholder, finalize. The reduced text (unknown '
        'targets and missing imports deleted) is parsed in a fresh interpreter for comparison. non-trivial = at least one '
        'statement is skipped and one applied, or an unlisted unknown name is rejected; distinct = canonical case')
TRUSTED_BASE = ['Lean 4.33 kernel', 'axioms ⊆ {propext, Classical.choice, Quot.sound}', 'JSON glue (Gin/Drv)',
                'harness gen_stmts.py / gindom.py']
ASSUMPTIONS = ['static registration ("known" = registered when the statement is reached; imported modules may register); dynamic registration is C19',
               'acyclic configurations: evaluated references point down the registration order, macros hold no evaluated '
               'reference to a known configurable and no macro (a cyclic configuration recurses until Python gives up)',
               'a skipped statement contains no reference to an unknown unlisted name (DESIGN §7 D20: the value is parsed before the skip decision)']
EXPLANATION = ('Lean theorems about shouldSkip / resolveRaw / applyStmts (a skipped statement is a no-op, hence the result '
               'equals that of the text with those statements deleted; known names are never skipped; unlisted unknown '
               'names are errors; placeholders are kept, raise on use and at finalize) + differential run + '
               'fresh-interpreter parse of the reduced text.')

UNKNOWN = ['zz.q', 'unk', 'pkg.other']


def gen_case(rng):
  regs = G.gen_registry(rng, rng.randint(2, 3))
  for c in regs:
    for plist in (c['sig']['pos'], c['sig']['kwonly']):
      for p in plist:
        if p[1] is None and p[0] not in ('self', 'cls'):
          p[1] = {'v': None}
  known = [r['_selector'] for r in regs]
  unknown = rng.sample(UNKNOWN, rng.randint(2, 3))
  sk = rng.choice(['no', 'all', 'all', 'names', 'names', 'names'])
  if sk == 'names':
    listed = rng.sample(unknown, rng.randint(1, len(unknown)))
    named = list(listed)
    if rng.random() < 0.3:
      named.append(rng.choice(known))   # naming a registered configurable does not make it unknown
    skip = {'k': 'names', 'v': named, '_type': rng.choice(['list', 'tuple', 'set'])}
  else:
    listed = list(unknown) if sk == 'all' else []
    skip = {'k': sk}
  # references to unknown names only where they are skippable (else the statement is the error under test)
  b, red = S.Builder(), S.Builder()
  fails = False
  n = rng.randint(3, 10)
  # a module that registers a configurable when the text imports it: "known" is judged statement by statement
  late = None
  if rng.random() < 0.35:
    late = dict(G.gen_late_register(rng, 90), cls=False)
    for plist in (late['sig']['pos'], late['sig']['kwonly']):
      for p in plist:
        if p[1] is None:
          p[1] = {'v': None}
    late_pos = rng.randrange(n)
    if sk == 'names' and rng.random() < 0.6:
      skip['v'] = skip['v'] + [late['_selector']]
  regmods = {}
  for i in range(n):
    if late is not None and i == late_pos and not fails:
      lsel = late['_selector']
      spelled = rng.choice([lsel, lsel.split('.')[-1]])
      skippable = sk == 'all' or (sk == 'names' and spelled in skip['v'])
      cons = rng.choice(regs)
      ccls = [x for x, k in G.param_classes(cons).items() if k == 'valid']
      lcls = [x for x, k in G.param_classes(late).items() if k == 'valid']
      sc0 = '/'.join(rng.choice([[], ['a']]))
      if ccls and (skippable or rng.random() < 0.1) and rng.random() < 0.8:
        # a reference to the name before the module is imported: a placeholder, or (unlisted) the error under test
        val = {'l': [1, {'rawref': [rng.choice([[], ['a']]), spelled, rng.random() < 0.5]}]}
        arg0 = rng.choice(ccls)
        S.add_binding(b, sc0, cons['_selector'], arg0, val)
        if not skippable:
          fails = True
          break
        S.add_binding(red, sc0, cons['_selector'], arg0, val)
      if lcls and skippable and rng.random() < 0.6:
        S.add_binding(b, sc0, spelled, rng.choice(lcls), 5)    # unknown as yet: skipped, absent from the reduced text
      mod = 'ginverif_regmod_%d' % rng.randint(0, 3)
      regmods[mod] = [late]
      for bb in (b, red):
        bb.add('import ' + mod, {'k': 'import', 'module': mod, 'found': True, 'regs': [late]})
      if ccls and rng.random() < 0.85:
        # the same name after the import: a real reference now, whatever was decided about it before
        val = {'l': [2, {'rawref': [rng.choice([[], ['a']]), spelled, rng.random() < 0.5]}]}
        arg1 = rng.choice(ccls)
        S.add_binding(b, sc0, cons['_selector'], arg1, val)
        S.add_binding(red, sc0, cons['_selector'], arg1, val)
      if lcls and rng.random() < 0.7:
        argl = rng.choice(lcls)
        S.add_binding(b, sc0, spelled, argl, 7)
        S.add_binding(red, sc0, spelled, argl, 7)
    r = rng.random()
    scope = '/'.join(rng.choice([[], ['a'], ['a', 'b']]))
    if rng.random() < 0.06:
      # a spelling that several registered configurables end with is *known*: it is never skipped (not even when the
      # skip list names it) - it is ambiguous, through this path as through every other
      leaves = {}
      for rg in regs:
        parts = rg['_selector'].split('.')
        for kk in range(1, len(parts)):
          leaves.setdefault('.'.join(parts[-kk:]), set()).add(rg['_selector'])
      amb = sorted(l for l, rs in leaves.items() if len(rs) > 1)
      if amb:
        sp = rng.choice(amb)
        if sk == 'names' and rng.random() < 0.7:
          skip['v'] = skip['v'] + [sp]
        form = rng.choice(['bind', 'block', 'ref'])
        if form == 'bind':
          S.add_binding(b, scope, sp, 'x', 1)
        elif form == 'block':
          S.add_block(b, scope, sp, [('x', 1)])
        else:
          cons = regs[0]
          ccls = [x for x, k in G.param_classes(cons).items() if k == 'valid']
          if not ccls:
            continue
          S.add_binding(b, scope, cons['_selector'], ccls[0], {'l': [{'rawref': [[], sp, False]}]})
        fails = 'KeyError'
        break
    if r < 0.38:   # known target
      reg = rng.choice(regs)
      cls = [x for x, k in G.param_classes(reg).items() if k == 'valid']
      if not cls:
        continue
      lower = set(known[:regs.index(reg)])
      val = _decycle(S.gen_raw(rng, known, listed, w_ref=0.35, w_unknown=0.5), known, lower)
      if rng.random() < 0.75:
        arg = rng.choice(cls)
        S.add_binding(b, scope, reg['_selector'], arg, val)
        S.add_binding(red, scope, reg['_selector'], arg, val)
      else:
        members = [(a, _decycle(S.gen_raw(rng, known, listed, w_ref=0.3, w_unknown=0.5), known, lower))
                   for a in rng.sample(cls, min(2, len(cls)))]
        S.add_block(b, scope, reg['_selector'], members)
        S.add_block(red, scope, reg['_selector'], members)
    elif r < 0.68:  # unknown target
      u = rng.choice(unknown)
      val = S.gen_raw(rng, known, listed, w_ref=0.2, w_unknown=0.3)
      if rng.random() < 0.7:
        S.add_binding(b, scope, u, 'x', val)
      else:
        S.add_block(b, scope, u, [('x', val), ('y', G.gen_value(rng, 1))])
      if u not in listed:
        fails = True
        break
    elif r < 0.8:   # macro, possibly holding an unknown reference
      val = _decycle(S.gen_raw(rng, known, listed, w_ref=0.4, w_unknown=0.6), known, set(), no_macros=True)
      name = rng.choice(['m1', 'm2'])
      S.add_binding(b, '', name, '', val)
      S.add_binding(red, '', name, '', val)
    else:           # import
      if rng.random() < 0.5:
        mod = rng.choice(S.KNOWN_MODULES)
        b.add('import ' + mod, {'k': 'import', 'module': mod, 'found': True})
        red.add('import ' + mod, {'k': 'import', 'module': mod, 'found': True})
      else:
        mod = rng.choice(S.MISSING_MODULES)
        b.add('import ' + mod, {'k': 'import', 'module': mod, 'found': False})
        if sk == 'no' or (sk == 'names' and not skip['v']):
          fails = True
          break
  ops = list(regs) + [{'op': 'parse', 'file': None, 'skip': skip, 'stmts': b.stmts, '_text': b.text(), '_files': {},
                       '_regmods': regmods},
                      {'op': 'config'}, {'op': 'imports'}]
  # use of whatever was bound: consuming calls, then finalize
  for reg in regs[:2]:
    call = G.gen_call(rng, reg, G.gen_enter(rng, rng.choice([[], ['a'], ['a', 'b']])), w_bad=0.0)
    call['op'] = 'ecall'
    call['args'] = call['args'][:1] if '_selfname' in call else []
    call['kwargs'] = []
    ops.append(call)
  ops += [{'op': 'finalize'}, {'op': 'locked'}]
  return {'dom': 'gin', 'ops': ops, '_reduced': red.text(), '_reduced_stmts': red.stmts, '_skip': skip,
          '_expect_fail': fails, '_nregs': len(regs), '_regmods': regmods, '_late': late is not None}


def _decycle(val, known, allowed, no_macros=False):
  """Evaluated references may only point down the registration order (and macros hold none): the
  configuration stays acyclic, as the fuel-indexed evaluator of the mirror assumes."""
  if isinstance(val, dict):
    if 'rawref' in val:
      scopes, sp, ev = val['rawref']
      parts = sp.split('.')
      hits = [k for k in known if k.split('.')[-len(parts):] == parts]
      if ev and any(h not in allowed for h in hits):
        return {'rawref': [scopes, sp, False]}
      return val
    if 'rawmacro' in val:
      return 0 if no_macros else val
    return {k: _decycle(v, known, allowed, no_macros) for k, v in val.items()}
  if isinstance(val, list):
    return [_decycle(v, known, allowed, no_macros) for v in val]
  return val


# ------------------------------------------------------------------ dynamic registration
def gen_dyn_case(rng):
  """A file under dynamic registration (imports in every form, bindings through several spellings, references -
  the C19 generator) with unknown names mixed in: targets no import provides, attributes that do not exist, a
  missing module, as bindings, blocks and references; parsed with every form of skip_unknown. "Known" is what
  resolves through the file's own imports."""
  from props import c19
  w, _ = c19.get_world()
  c19.VIA.clear()
  for _ in range(50):
    body = c19.gen_file(rng, w, 0, {}, {})
    binds = [st for st in body if st.get('k') in ('bind', 'bindref')]
    kinds = [st.get('k') for st in body]
    first = next((i for i, k in enumerate(kinds) if k in ('bind', 'bindref')), len(kinds))
    if (not c19.any_expect(body) and binds and 'unit' not in kinds and 'imp' not in kinds[first:]):
      break    # (imports all come first: the unknown names below are judged against one symbol table)
  else:
    return None
  symtab = next(st['_symtab'] for st in body if st.get('k') == 'nop')
  syms = sorted(symtab)
  first_stmt = next(i for i, st in enumerate(body) if st.get('k') in ('bind', 'bindref'))
  unknown_sels = [['zz', 'q'], ['nosuchsym', 'f']] + [[sy, 'no_such_attr'] for sy in syms[:2]] + \
      [[sy, 'no_such_attr', 'deeper'] for sy in syms[:1]]
  first_unit = None
  if rng.random() < 0.4:
    # an earlier file reached (and so registered) an object through a name of its own: in this file, whose imports do
    # not provide that name, it is as unknown as any other
    first_unit = [{'k': 'imp', 'module': ['__gin__', 'dynamic_registration'], 'from': True, 'alias': None},
                  {'k': 'imp', 'module': ['c19pkg', 'm1'], 'from': False, 'alias': 'es'},
                  {'k': 'bind', 'sel': ['es', 'f'], 'arg': 'a', 'v': 7, '_target': c19.name_to_id('c19pkg.m1:f')},
                  {'k': 'nop', '_symtab': {}}]
    unknown_sels += [['es', 'f'], ['es', 'f']]
  sk = rng.choice(['no', 'all', 'all', 'names', 'names', 'names'])
  skip = {'k': sk}
  if sk == 'names':
    named = [list(u) for u in rng.sample(unknown_sels, rng.randint(1, len(unknown_sels)))]
    if rng.random() < 0.4:   # naming a known name does not make it unknown
      named.append(list(rng.choice(binds)['sel']))
    skip = {'k': 'names', 'v': named, '_type': rng.choice(['list', 'tuple', 'set'])}

  def covered(sel):
    return sk == 'all' or (sk == 'names' and list(sel) in skip['v'])

  def err_of(sel):
    return 'NameError' if sel[0] not in symtab else 'AttributeError'
  groups = {}
  nins = rng.randint(1, 4)
  for _ in range(nins):
    pos = rng.randint(first_stmt, len(body) - 1)     # before the trailing `nop`; groups stay contiguous
    u = list(rng.choice(unknown_sels))
    kind = rng.choice(['bind', 'bind', 'block', 'ref', 'import'])
    new = []
    if kind == 'bind':
      new = [{'k': 'bind', 'sel': u, 'arg': 'x', 'v': rng.randint(1, 9), '_target': None}]
    elif kind == 'block':
      new = [{'k': 'block', 'sel': u, '_target': None},
             {'k': 'bind', 'sel': u, 'arg': 'x', 'v': 1, '_target': None, '_inblock': True}]
      if rng.random() < 0.5:
        new.append({'k': 'bind', 'sel': u, 'arg': 'y', 'v': 2, '_target': None, '_inblock': True})
    elif kind == 'ref':
      h = rng.choice(binds)
      new = [{'k': 'bindref', 'sel': list(h['sel']), 'arg': h['arg'], 'ref': u, '_target': h['_target'],
              '_reftarget': None, 'scope': rng.choice([0, 0, 1])}]
      if h.get('_class') is not None:
        new[0].update(_class=h['_class'], _method=h.get('_method'))
    else:
      new = [{'k': 'imp', 'module': ['no_such_pkg_xyz'] + (['sub'] if rng.random() < 0.3 else []), 'from': False,
              'alias': None, '_missing': True}]
    for st in new:
      if st['k'] == 'imp':
        if sk == 'no':
          st['_expect'] = 'ImportError'
        else:
          st['_skipped'] = True
      elif st['k'] == 'bindref':
        if covered(st['ref']):
          st['_placeholder'] = True
        else:
          st['_expect'] = err_of(st['ref'])
      elif covered(st['sel']):
        st['_skipped'] = True
      else:
        st['_expect'] = err_of(st['sel'])
    groups.setdefault(pos, []).extend(new)
  out = []
  for i, st in enumerate(body):
    out.extend(groups.get(i, []))
    out.append(st)
  return {'dom': 'dyn', 'units': ([first_unit] if first_unit else []) + [out], 'skip': skip, '_dyn15': True}


def gen_cases(rng, tier, boost=1):
  n = (600 if tier == 'quick' else 20000) * boost
  for _ in range(n):
    yield gen_case(rng)
  for _ in range((250 if tier == 'quick' else 8000) * boost):
    c = gen_dyn_case(rng)
    if c is not None:
      yield c


def run_impl(case):
  if case.get('dom') == 'dyn':
    from props import c19
    return c19.run_impl(case)
  out = gindom.run_impl(case)
  regs = [o for o in case['ops'] if o['op'] == 'register']
  fresh = gindom.run_impl({'dom': 'gin', 'ops': regs + [
      {'op': 'parse', 'file': None, 'skip': case['_skip'], 'stmts': [], '_text': case['_reduced'], '_files': {},
       '_regmods': case.get('_regmods')},
      {'op': 'config'}, {'op': 'imports'}]})
  out['fresh'] = fresh['out'][len(regs):]
  return out


def _has_placeholder(x):
  if isinstance(x, dict):
    return 'unk' in x or any(_has_placeholder(v) for v in x.values())
  if isinstance(x, list):
    return any(_has_placeholder(v) for v in x)
  return False


def oracle(case, impl):
  if case.get('dom') == 'dyn':
    from props import c19
    c19.norm_case(case)
    want, err = c19.intended(case)
    if impl['err'] != err:
      return (f'skip_unknown={case["skip"]} under dynamic registration: expected outcome {err}, implementation gave '
              f'{impl["err"]} ({impl.get("err_msg")})\n{impl["texts"][0]}')
    if impl['bindings'] != want:
      return (f'skip_unknown={case["skip"]} under dynamic registration: deleting the statements that target unknown names '
              f'gives {want}, the registered configurables hold {impl["bindings"]}\n{impl["texts"][0]}')
    return None
  n = case['_nregs']
  res, cfg, imports = impl['out'][n], impl['out'][n + 1], impl['out'][n + 2]
  fr = impl['fresh']
  if 'err' in fr[0]:
    return f'harness: the reduced text fails in a fresh interpreter: {fr[0]}'
  if case['_expect_fail']:
    if 'ok' in res:
      return f'an unknown name not covered by skip_unknown={case["_skip"]} was accepted'
    if case['_expect_fail'] == 'KeyError':
      if res['err'] != 'KeyError':
        return f'an ambiguous spelling of registered configurables surfaced as {res["err"]} (skip_unknown={case["_skip"]})'
    elif res['err'] not in ('ValueError', 'ImportError'):
      return f'unlisted unknown name surfaced as {res["err"]}'
  elif 'err' in res:
    return f'parse with skip_unknown={case["_skip"]} failed: {res}'
  if cfg != fr[1]:
    return (f'with skip_unknown={case["_skip"]} the store is {cfg}; deleting the statements that target unknown names '
            f'gives {fr[1]}')
  if imports != fr[2]:
    return f'recorded imports {imports} vs reduced text {fr[2]}'
  fin = impl['out'][-2]
  if _has_placeholder(cfg.get('ok')) and 'ok' in fin:
    return 'finalize accepted a configuration that still holds a reference to an unknown configurable'
  return None


def nontrivial(case, impl):
  if case.get('dom') == 'dyn':
    return True
  n = case['_nregs']
  stmts = case['ops'][n]['stmts']
  applied = len(case['_reduced_stmts'])
  return case['_expect_fail'] or (0 < applied < len(stmts))


def tally(stats, case, impl):
  if case.get('dom') == 'dyn':
    k = 'dyn:skip:' + case['skip']['k'] + ':' + str(impl['err'])
    stats[k] = stats.get(k, 0) + 1
    return
  k = 'skip:' + case['_skip']['k'] + (':' + case['_skip'].get('_type', '') if case['_skip']['k'] == 'names' else '')
  stats[k] = stats.get(k, 0) + 1
  res = impl['out'][case['_nregs']]
  kk = 'parse:' + ('ok' if 'ok' in res else res['err'])
  stats[kk] = stats.get(kk, 0) + 1
  for op, r in zip(case['ops'], impl['out']):
    if op['op'] in ('ecall', 'finalize'):
      k2 = op['op'] + ':' + ('ok' if 'ok' in r else r['err'])
      stats[k2] = stats.get(k2, 0) + 1


def classify(case, impl, model, why_oracle, why_model, findings):
  return None
