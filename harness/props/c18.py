"""C18 — shared records stay consistent under threads; singletons are constructed once."""
import threading

import core
import gen_gin as G

ID = 'C18'
DOMAIN = 'sched'
PROPS_FILES = ['Gin/Props/C18.lean', 'Gin/Props/C18b.lean']
ANCHOR_FILES = ['config.py']
RULE = ('[sequential histories of singleton uses interleaved with clear_config(clear_constants in {False, True}) against the Machine mirror] 2-4 real threads, each with a program of 2-5 actions from {use singleton key k (first or repeated use; one key\'s constructor returns None), call a '
        'configurable under a scope (updating the operative record), read operative_config_str()}; the singleton table, the '
        'operative record and the locks of gin.config are replaced by instrumented objects with a scheduling point before '
        'every access, and a deterministic baton scheduler follows a random schedule (quick) or enumerates all schedules '
        'with at most 2 pre-emptions of small programs (thorough). Observed: constructions per key, identity of delivered '
        'objects, exceptions, every read parsed back, the final operative text compared with a sequential run. '
        'non-trivial = two threads use the same singleton key for the first time, or two threads update the record of one '
        '(scope, configurable); distinct = canonical case')
TRUSTED_BASE = ['Lean 4.33 kernel', 'axioms ⊆ {propext, Classical.choice, Quot.sound}', 'JSON glue (Gin/Drv)',
                'harness props/c18.py (instrumented dict / lock objects installed as module globals, baton scheduler, watchdog)',
                'the GIL\'s atomicity of single dict operations; CPython\'s "dictionary changed size during iteration" checks']
ASSUMPTIONS = ['scheduling points are the accesses to the shared tables and lock operations (statement granularity inside gin)',
               'a lock-bracketed section is atomic with respect to other lock-bracketed sections of the same lock']
EXPLANATION = ('Lean theorems about singleton lookup-or-construct as an atomic step (at most one construction per key over '
               'every history, every use gets that object, clear forgets it), a kernel-checked witness that the unlocked '
               'check-then-act admits a schedule with two constructions, and order-independence of operative record '
               'updates + replay of schedules on the real code with instrumented shared objects.')


# ------------------------------------------------------------------ generator
def gen_case(rng, nthreads=None):
  nt = nthreads or rng.choice([2, 2, 3, 4])
  keys = ['k1', 'k2', 'kn', 'kd']   # the constructor of 'kn' returns None, that of 'kd' uses the singleton 'k1'
  threads = []
  for _ in range(nt):
    prog = []
    for _ in range(rng.randint(2, 5)):
      r = rng.random()
      if r < 0.08:
        prog.append(['single_noctor', rng.choice(keys)])   # a use without constructor: an error unless cached
      elif r < 0.16:
        # a use whose constructor raises: unless the object is cached already, that use fails (its own fault) and
        # nothing is constructed; every other use of the scope name goes on as if it had not happened
        prog.append(['single_fail', rng.choice(keys)])
      elif r < 0.5:
        prog.append(['single', rng.choice(keys)])
      elif r < 0.85:
        prog.append(['call', rng.choice(['f', 'g']), rng.choice(['', 'a', 'a/b']), rng.choice([None, 1, 2])])
      else:
        prog.append(['read'])
    threads.append(prog)
  sched = [rng.randrange(nt) for _ in range(rng.randint(10, 120))]
  case = {'dom': 'sched', 'threads': threads, 'schedule': sched, '_finalize': rng.random() < 0.3}
  if rng.random() < 0.3:
    # the configuration uses dynamic registration (the operative text then starts with the imports it needs);
    # 1: both configurables live in one module, 2: in two modules
    case['_dynreg'] = rng.choice([1, 2])
  return case


def gen_history(rng):
  """One thread: uses of a few scope names interleaved with both kinds of clear_config."""
  ops = []
  for _ in range(rng.randint(4, 12)):
    if rng.random() < 0.3:
      ops.append({'op': 'clear', 'constants': rng.random() < 0.5})
    else:
      ops.append({'op': 'singleton', 'key': rng.choice(['s1', 's2', 'a/s1', 'b/s1', 'a/b/s2']), 'ctor': rng.random() < 0.85,
                  '_via_cfg': rng.random() < 0.5})
  return {'dom': 'gin', 'ops': ops}


def gen_cases(rng, tier, boost=1):
  for _ in range((150 if tier == 'quick' else 4000) * boost):
    yield gen_history(rng)
  n = (250 if tier == 'quick' else 6000) * boost
  for _ in range(n):
    yield gen_case(rng)
  # the classic race, under every schedule of two threads doing one first use each
  import itertools
  k = 10 if tier == 'quick' else 14
  for bits in itertools.islice(itertools.product([0, 1], repeat=k), 0, None, 7 if tier == 'quick' else 1):
    yield {'dom': 'sched', 'threads': [[['single', 'k1']], [['single', 'k1']]], 'schedule': list(bits)}
  # a read of an existing record while another thread's call adds a parameter to that very record
  k2 = 14 if tier == 'quick' else 16
  for bits in itertools.islice(itertools.product([0, 1], repeat=k2), 0, None, 97 if tier == 'quick' else 3):
    yield {'dom': 'sched', 'threads': [[['call', 'f', '', 1], ['read'], ['read']], [['call', 'f', '', None]]],
           'schedule': list(bits) + [0, 1] * 4}


  # one pre-emption, at every point of the first thread's run (and of the second's): thread A runs `a` steps, thread B
  # runs to its end, A finishes - for programs in which one thread reads while the other's call extends an existing
  # record, first uses of one scope name meet, or a read meets a first call
  progs = [[[['call', 'f', '', 1], ['read']], [['call', 'f', '', None]]],
           [[['call', 'g', 'a', 2], ['read'], ['read']], [['call', 'g', 'a', None]]],
           [[['call', 'f', 'a', 2], ['call', 'f', 'a', None]], [['read'], ['read']]],
           [[['single', 'k1'], ['read']], [['single', 'k1'], ['single', 'kd']]],
           [[['read']], [['call', 'g', 'a/b', None], ['call', 'f', 'a/b', None]]]]
  for k, threads in enumerate(progs):
    for a in range(0, 40 if tier == 'quick' else 120, 1):
      yield {'dom': 'sched', 'threads': threads, 'schedule': [0] * a + [1] * 80 + [0] * 80}
      yield {'dom': 'sched', 'threads': threads, 'schedule': [1] * a + [0] * 80 + [1] * 80}
      if k < 2:   # ... and the same on a finalized configuration
        yield {'dom': 'sched', 'threads': threads, 'schedule': [0] * a + [1] * 80 + [0] * 80, '_finalize': True}

  # the same single pre-emption on configurations that use dynamic registration: a read (which first works out the
  # imports its text needs) meets the first call of a configurable - of a module the record knows already, or of a
  # module nothing recorded so far lives in - or a call that extends an existing record
  dyn_progs = [[[['call', 'f', '', 1], ['read']], [['call', 'g', 'a/b', None]]],
               [[['call', 'g', 'a', 2], ['read'], ['read']], [['call', 'f', 'a', None], ['call', 'g', '', None]]],
               [[['call', 'f', '', 1], ['call', 'f', 'a', None], ['read']], [['call', 'f', 'a/b', 2], ['read']]],
               [[['read'], ['read']], [['call', 'g', 'a/b', None], ['call', 'f', 'a/b', None]]]]
  for k, threads in enumerate(dyn_progs):
    for a in range(0, 60 if tier == 'quick' else 160, 1):
      dyn = 1 + (a + k) % 2
      yield {'dom': 'sched', 'threads': threads, 'schedule': [0] * a + [1] * 120 + [0] * 120, '_dynreg': dyn}
      if a < 30:
        yield {'dom': 'sched', 'threads': threads, 'schedule': [1] * a + [0] * 120 + [1] * 120, '_dynreg': 3 - dyn}

  # a first use whose constructor fails, and the same scope name used again - by the same thread, by another one, by
  # both - with a working constructor: under every placement of one pre-emption
  fail_progs = [[[['single_fail', 'k1'], ['single', 'k1']], [['single', 'k1']]],
                [[['single_fail', 'k2']], [['single', 'k2'], ['single', 'k2']]],
                [[['single_fail', 'kn'], ['single_fail', 'kn'], ['single', 'kn']], [['single_noctor', 'kn'], ['single', 'kn']]],
                [[['single_fail', 'k1'], ['single', 'kd']], [['single_fail', 'kd'], ['single', 'k1']]],
                [[['single', 'k2'], ['single_fail', 'k2']], [['single_fail', 'k2'], ['single', 'k2']]]]
  for threads in fail_progs:
    for a in range(0, 16 if tier == 'quick' else 40):
      yield {'dom': 'sched', 'threads': threads, 'schedule': [0] * a + [1] * 60 + [0] * 60}
      yield {'dom': 'sched', 'threads': threads, 'schedule': [1] * a + [0] * 60 + [1] * 60}


# ------------------------------------------------------------------ instrumented shared objects
class Sched:
  def __init__(self, n, schedule):
    self.cv = threading.Condition()
    self.n = n
    self.schedule = list(schedule)
    self.pos = 0
    self.turn = None
    self.waiting = [False] * n
    self.finished = [False] * n
    self.tids = {}

  def me(self):
    return self.tids.get(threading.get_ident())

  def checkpoint(self):
    tid = self.me()
    if tid is None:
      return   # the main thread (set-up, sequential reference run) is never scheduled
    with self.cv:
      self.waiting[tid] = True
      self.cv.notify_all()
      while self.turn != tid:
        if not self.cv.wait(timeout=30):
          raise core.Infra('scheduler watchdog: worker stuck at a scheduling point')
      self.turn = None
      self.waiting[tid] = False

  def finish(self, tid):
    with self.cv:
      self.finished[tid] = True
      self.cv.notify_all()

  def run(self):
    """Main-thread loop: follow the schedule, then round-robin until everybody has finished."""
    while True:
      with self.cv:
        if all(self.finished):
          return
        if self.pos < len(self.schedule):
          tid = self.schedule[self.pos]
        else:
          tid = (self.pos - len(self.schedule)) % self.n
        self.pos += 1
        if self.pos > 100000:
          raise core.Infra('scheduler: no progress')
        while not (self.waiting[tid] or self.finished[tid]):
          if not self.cv.wait(timeout=30):
            raise core.Infra('scheduler watchdog: thread never reached a scheduling point')
        if self.finished[tid]:
          continue
        self.turn = tid
        self.cv.notify_all()
        while self.turn == tid or not (self.waiting[tid] or self.finished[tid]):
          if not self.cv.wait(timeout=30):
            raise core.Infra('scheduler watchdog: turn did not complete')


class Blocked(Exception):
  pass


class SDict(dict):
  """dict with a scheduling point before every access gin makes to it."""
  sched = None

  def __contains__(self, k):
    self.sched.checkpoint()
    return dict.__contains__(self, k)

  def __getitem__(self, k):
    self.sched.checkpoint()
    return dict.__getitem__(self, k)

  def get(self, k, d=None):
    self.sched.checkpoint()
    return dict.get(self, k, d)

  def pop(self, *a):
    self.sched.checkpoint()
    return dict.pop(self, *a)

  def __setitem__(self, k, v):
    self.sched.checkpoint()
    dict.__setitem__(self, k, v)

  def setdefault(self, k, d=None):
    self.sched.checkpoint()
    if type(d) is dict:   # the per-configurable record is shared too: instrument it as well
      d = SDict(d)
    return dict.setdefault(self, k, d)

  def update(self, *a, **k):
    self.sched.checkpoint()
    dict.update(self, *a, **k)

  def items(self):
    # a thread can be pre-empted between two steps of an iteration: if another thread changes the dict
    # meanwhile, CPython raises "dictionary changed size during iteration" exactly as it would for real
    self.sched.checkpoint()
    for kv in dict.items(self):
      yield kv
      self.sched.checkpoint()

  def __iter__(self):
    self.sched.checkpoint()
    for k in dict.__iter__(self):
      yield k
      self.sched.checkpoint()


class SLock:
  """Cooperative (re-entrant) lock: a blocked acquire gives the turn back instead of blocking the OS thread."""

  def __init__(self, sched, reentrant=True):
    self.sched = sched
    self.owner = None
    self.depth = 0
    self.reentrant = reentrant   # as the lock it stands in for

  def acquire(self):
    me = threading.get_ident()
    spins = 0
    while True:
      self.sched.checkpoint()
      if self.owner == me and not self.reentrant:
        raise Blocked('a thread waits for a (non re-entrant) gin lock that it holds itself')
      if self.owner is None or self.owner == me:
        self.owner = me
        self.depth += 1
        return True
      spins += 1
      if spins > 1500:
        # every other thread had hundreds of turns and the lock is still held: its holder left it locked
        raise Blocked('blocked forever on a gin lock that another thread left held')

  def release(self):
    self.depth -= 1
    if self.depth == 0:
      self.owner = None
    self.sched.checkpoint()

  def __enter__(self):
    self.acquire()
    return self

  def __exit__(self, *a):
    self.release()


class ThreadingShim:
  """Stands in for the `threading` module inside gin.config: locks created while the scheduled threads run are
  cooperative ones too (a real lock held across a scheduling point would stall the scheduler, not the thread)."""

  def __init__(self, sched):
    self._sched = sched

  def Lock(self):      # noqa: N802
    return SLock(self._sched, reentrant=False)

  def RLock(self):     # noqa: N802
    return SLock(self._sched, reentrant=True)

  def __getattr__(self, name):
    return getattr(threading, name)


DYN_MODULES = ('pm', 'pn')


def build(gin, sched, finalize=False, dynreg=0):
  cfg = gin.config
  gmod = 'pm'
  if dynreg:
    # importable modules (the text of a configuration that uses dynamic registration names them in import statements)
    import sys
    import types
    gmod = 'pn' if dynreg == 2 else 'pm'
    mods = {}
    for name in DYN_MODULES:
      mods[name] = sys.modules[name] = types.ModuleType(name)
    exec('def f(x=0, y=5):\n  return (x, y)\n', mods['pm'].__dict__)  # pylint: disable=exec-used
    exec('def g(z=1):\n  return z\n', mods[gmod].__dict__)  # pylint: disable=exec-used
    fns = {'f': gin.configurable(mods['pm'].f), 'g': gin.configurable(mods[gmod].g)}
    gin.parse_config('from __gin__ import dynamic_registration\n')
  else:
    g = {'__name__': 'pm'}
    exec('def f(x=0, y=5):\n  return (x, y)\ndef g(z=1):\n  return z\n', g)  # pylint: disable=exec-used
    fns = {'f': gin.configurable(g['f']), 'g': gin.configurable(g['g'])}
  gin.bind_parameter('pm.f.x', 1)
  gin.bind_parameter('a/pm.f.y', 7)
  gin.bind_parameter('a/b/%s.g.z' % gmod, [1, 2, 3])
  if finalize:
    gin.finalize()     # a locked configuration: calls keep recording into the operative config, reads keep reading it
  if sched is not None:
    SDict.sched = sched
    # the shared tables: the two the property names, and any other private module-level dict that is empty at this
    # point (tables a change of the code may add next to them, e.g. per-key locks)
    extra = [n for n, v in vars(cfg).items() if n.startswith('_') and n.isupper() and type(v) is dict and not v
             and n not in ('_SINGLETONS', '_OPERATIVE_CONFIG', '_CONFIG', '_CONFIG_PROVENANCE')]
    for name in ['_SINGLETONS', '_OPERATIVE_CONFIG'] + extra:
      d = SDict()
      dict.update(d, getattr(cfg, name))
      setattr(cfg, name, d)
    for name in ('_OPERATIVE_CONFIG_LOCK', '_SINGLETONS_LOCK'):
      if hasattr(cfg, name):
        setattr(cfg, name, SLock(sched, reentrant=type(getattr(cfg, name)) is type(threading.RLock())))
    if hasattr(cfg, 'threading'):
      cfg.threading = ThreadingShim(sched)
  return fns


class CtorFailed(Exception):
  pass


def do_action(gin, fns, act, counts, log):
  if act[0] == 'single':
    key = act[1]

    def ctor():
      counts[key] = counts.get(key, 0) + 1
      if key == 'kd':   # a singleton whose constructor needs another singleton
        def ctor1():
          counts['k1'] = counts.get('k1', 0) + 1
          return object()
        dep = gin.config.singleton_value('k1', ctor1)
        log.append(['single', 'k1', id(dep)])
      return None if key == 'kn' else object()
    obj = gin.config.singleton_value(key, ctor)
    log.append(['single', key, id(obj)])
  elif act[0] == 'single_fail':
    key = act[1]

    def failing():
      raise CtorFailed(key)
    try:
      obj = gin.config.singleton_value(key, failing)
      log.append(['single', key, id(obj)])   # cached already: the constructor is not needed
    except CtorFailed:
      log.append(['ctor_failed', key])       # nothing constructed, nothing cached; this use's own failure
  elif act[0] == 'single_noctor':
    try:
      obj = gin.config.singleton_value(act[1])
      log.append(['single', act[1], id(obj)])
    except ValueError:
      log.append(['noctor_error', act[1]])   # nothing cached yet: the documented error, nobody else's fault
  elif act[0] == 'call':
    import contextlib
    with contextlib.ExitStack() as st:
      if act[2]:
        st.enter_context(gin.config_scope(act[2]))
      kwargs = {} if act[3] is None else ({'x': act[3]} if act[1] == 'f' else {'z': act[3]})
      fns[act[1]](**kwargs)
    log.append(['call', act[1], act[2]])
  else:
    text = gin.operative_config_str()
    log.append(['read', text])


def run_impl(case):
  if case['dom'] == 'gin':
    import gindom
    return gindom.run_impl(case)
  try:
    return run_sched_case(case)
  finally:
    import sys
    for name in DYN_MODULES:
      sys.modules.pop(name, None)


def run_sched_case(case):
  gin = core.fresh_gin()
  n = len(case['threads'])
  sched = Sched(n, case['schedule'])
  dynreg = case.get('_dynreg', 0)
  fns = build(gin, sched, case.get('_finalize', False), dynreg)
  counts, logs, errors = {}, [[] for _ in range(n)], [None] * n

  def worker(tid):
    sched.tids[threading.get_ident()] = tid
    try:
      for act in case['threads'][tid]:
        do_action(gin, fns, act, counts, logs[tid])
    except core.Infra:
      raise
    except BaseException as e:  # pylint: disable=broad-except
      errors[tid] = core.err_class(e) + ': ' + str(e)[:200]
    finally:
      sched.finish(tid)

  ts = [threading.Thread(target=worker, args=(i,), daemon=True) for i in range(n)]
  for t in ts:
    t.start()
  sched.run()
  for t in ts:
    t.join(timeout=30)
    if t.is_alive():
      raise core.Infra('worker did not finish')
  final = gin.operative_config_str()
  # every concurrent read must parse
  reads_parse = True
  for lg in logs:
    for e in lg:
      if e[0] == 'read':
        g2 = core.fresh_gin()
        build(g2, None, False, dynreg)
        g2.clear_config()
        try:
          g2.parse_config(e[1])
        except Exception as ex:  # pylint: disable=broad-except
          reads_parse = f'{type(ex).__name__}: {ex}'[:200]
  # sequential reference: the same actions one thread after the other, in a fresh interpreter
  g3 = core.fresh_gin()
  fns3 = build(g3, None, case.get('_finalize', False), dynreg)
  c3 = {}
  seq_box = {}

  def sequential():
    for prog in case['threads']:
      for act in prog:
        do_action(g3, fns3, act, c3, [])
    seq_box['text'] = g3.operative_config_str()
  if any(errors):
    seq_box['text'] = None      # a thread already failed: that is the report (and real locks might hang here)
  else:
    th = threading.Thread(target=sequential, daemon=True)
    th.start()
    th.join(timeout=20)
    if th.is_alive():
      errors = list(errors) + ['the sequential run of the same actions does not return (a lock is never released)']
      seq_box['text'] = None
  seq = seq_box.get('text')
  ids = {}
  for lg in logs:
    for e in lg:
      if e[0] == 'single':
        ids.setdefault(e[1], set()).add(e[2])
  return {'counts': counts, 'objects_per_key': {k: len(v) for k, v in ids.items()}, 'errors': errors,
          'final_equals_sequential': final == seq, 'final': final if final != seq else None, 'seq': seq if final != seq else None,
          'reads_parse': reads_parse, 'seq_counts': c3}


def to_driver(case, impl):
  if case['dom'] == 'gin':
    import gindom
    return gindom.to_driver(case, impl)
  # a use of 'kd' is a use of 'k1' (by its constructor) and of 'kd'
  threads = [[x for act in prog for x in ([['single', 'k1'], act] if act[:2] == ['single', 'kd'] else [act])]
             for prog in case['threads']]
  return {'dom': 'sched', 'threads': threads, 'schedule': case['schedule']}


def compare(case, impl, model):
  if case['dom'] == 'gin':
    import gindom
    return gindom.compare(case, impl, model)
  if 'counts' not in model:
    return f'driver error: {model}'
  if impl['counts'] != model['counts']:
    return f'constructions per key: impl {impl["counts"]} model {model["counts"]}'
  return None


def oracle(case, impl):
  if case['dom'] == 'gin':
    cache, built = {}, 0
    for k, (op, res) in enumerate(zip(case['ops'], impl['out'])):
      if op['op'] == 'clear':
        cache = {}      # either kind of clear forgets every singleton
        continue
      key = op['key']
      if key in cache:
        want = {'ok': cache[key]}
      elif op['ctor']:
        want = {'ok': {'o': 7000 + built}}
        cache[key] = want['ok']
        built += 1
      else:
        want = {'err': 'ValueError'}
      if res != want:
        return f'op {k} {op}: expected {want} (cache {cache}, {built} constructions so far), got {res}'
    return None
  for tid, e in enumerate(impl['errors']):
    if e:
      return f'thread {tid} failed because of another thread: {e}'
  for k, c in impl['counts'].items():
    if c > 1:
      return f'singleton {k!r} was constructed {c} times'
  for k, c in impl['objects_per_key'].items():
    if c > 1:
      return f'uses of singleton {k!r} received {c} different objects'
  if impl['reads_parse'] is not True:
    return f'a concurrent operative_config_str() does not parse: {impl["reads_parse"]}'
  if not impl['final_equals_sequential']:
    return f'final operative config {impl["final"]!r} differs from the sequential run {impl["seq"]!r}'
  return None


def nontrivial(case, impl):
  if case['dom'] == 'gin':
    ops = case['ops']
    return any(o['op'] == 'clear' and any(p['op'] == 'singleton' for p in ops[:i]) and
               any(p['op'] == 'singleton' for p in ops[i + 1:]) for i, o in enumerate(ops))
  firsts = {}
  for tid, prog in enumerate(case['threads']):
    for act in prog:
      if act[0] == 'single':
        firsts.setdefault(act[1], set()).add(tid)
  calls = {}
  for tid, prog in enumerate(case['threads']):
    for act in prog:
      if act[0] == 'call':
        calls.setdefault((act[1], act[2]), set()).add(tid)
  return any(len(v) >= 2 for v in firsts.values()) or any(len(v) >= 2 for v in calls.values())


def tally(stats, case, impl):
  if case['dom'] == 'gin':
    for op, res in zip(case['ops'], impl['out']):
      k = 'seq:' + op['op'] + ':' + ('ok' if 'ok' in res else res['err'])
      stats[k] = stats.get(k, 0) + 1
    return
  stats['threads=%d' % len(case['threads'])] = stats.get('threads=%d' % len(case['threads']), 0) + 1
  stats['turns'] = stats.get('turns', 0) + len(case['schedule'])
  if case.get('_dynreg'):
    stats['dynreg=%d' % case['_dynreg']] = stats.get('dynreg=%d' % case['_dynreg'], 0) + 1
  for prog in case['threads']:
    for act in prog:
      stats['act:' + act[0]] = stats.get('act:' + act[0], 0) + 1


def shrink(case):
  if case['dom'] == 'gin':
    ops = case['ops']
    for k in range(len(ops) - 1, -1, -1):
      yield {'dom': 'gin', 'ops': ops[:k] + ops[k + 1:]}
    return
  for tid in range(len(case['threads'])):
    if len(case['threads']) > 2:
      ths = case['threads'][:tid] + case['threads'][tid + 1:]
      sched = [t if t < tid else t - 1 for t in case['schedule'] if t != tid]
      yield dict(case, threads=ths, schedule=sched)
  for tid, prog in enumerate(case['threads']):
    for i in range(len(prog)):
      if len(prog) > 1:
        ths = list(case['threads'])
        ths[tid] = prog[:i] + prog[i + 1:]
        yield dict(case, threads=ths)
  if len(case['schedule']) > 1:
    yield dict(case, schedule=case['schedule'][:len(case['schedule']) // 2])


def classify(case, impl, model, why_oracle, why_model, findings):
  return None
