"""C17 — exceptions from configurables keep their type, data and traceback."""
import builtins
import traceback

import core
from encode import encode, canon

ID = 'C17'
DOMAIN = 'exc'
PROPS_FILES = ['Gin/Props/C17.lean', 'Gin/Props/C17b.lean']
ANCHOR_FILES = ['utils.py', 'config.py']
RULE = ('every exception class in `builtins` that can be instantiated from a table of constructor arguments (incl. '
        'exception groups and OSError subclasses selected by errno), plus generated user classes (required __init__ / '
        '__new__ arguments, extra attributes, __slots__, custom __str__, properties), raised at nesting depth 1-3 of '
        'configurable calls, while a reference is evaluated for a configurable or inside a gin.singleton constructor, plus '
        'random call paths of depth 2-9 (helpers that enter scopes of their own, parameters bound by Gin on some levels, '
        'required positional parameters supplied positionally / by keyword / by Gin, the entry called with a keyword or '
        'positional argument, with and without an outer scope); the caught exception is compared with the original (class, '
        'isinstance, catchability by the original except clause, args, every public non-callable attribute) and with the '
        'model of the whole call path (Gin/ExcChain.lean): which object arrives, the exact text (original text + one message '
        'per configurable, innermost first, with the missing-argument hint for a TypeError), the user frames of the '
        'traceback; BaseException-only classes must pass through untouched; the missing-argument table (Python\'s own '
        'TypeError for unsupplied positional parameters) is compared with the model text exactly. '
        'non-trivial = the class has a data attribute besides args or a constructor with required arguments; the builtin '
        'table is enumerated completely on every run')
TRUSTED_BASE = ['Lean 4.33 kernel', 'axioms ⊆ {propext, Classical.choice, Quot.sound}', 'JSON glue (Gin/Drv)',
                'harness props/c17.py', 'class creation, C-level slots, with_traceback are CPython\'s']
ASSUMPTIONS = ['attribute values are opaque to the model: it fixes the lookup order (data descriptors of the type, instance dict, forwarding) and the chain of proxies',
               'whether an uninitialised instance of a subclass of the raised class can be made (cls.__new__(Sub, *args) / BaseException.__new__(Sub)) is a fact about Python measured by the harness on each class',
               'repr() of the wrapped callables (memory addresses) is read from the run and handed to the model as opaque text',
               'a class whose constructor does not accept its own `args` may arrive as the original object, message unextended']
EXPLANATION = ('Lean theorems about the whole call path, by induction over its depth (Props/C17b.lean: class_kept, attrs_agree, '
               'message_extended, one_proxy_per_level, traceback_kept, non_exception_untouched, unbuildable_keeps_original) and '
               'about the attribute-lookup protocol of the proxy (forwarding proxy reads agree with the '
               'original for every attribute; the non-forwarding construction provably loses slot-backed attributes) + '
               'exhaustive run over the builtin exception table and generated user classes on the real code.')


class NeedsArgs(Exception):
  def __init__(self, a, b):
    super().__init__(a, b)
    self.a, self.b = a, b


class NeedsNewArgs(Exception):
  def __new__(cls, code, detail):
    self = super().__new__(cls, code, detail)
    self.code = code
    return self

  def __init__(self, code, detail):
    super().__init__(code, detail)
    self.detail = detail


class Slotted(Exception):
  __slots__ = ('payload',)

  def __init__(self, payload):
    super().__init__('slotted')
    self.payload = payload


class CustomStr(ValueError):
  def __init__(self, msg, extra):
    super().__init__(msg)
    self.extra = extra

  def __str__(self):
    return 'custom<' + self.args[0] + '>'


class WithProperty(RuntimeError):
  def __init__(self, n):
    super().__init__(n)
    self._n = n

  @property
  def doubled(self):
    return self._n * 2


class DeviceError(OSError):
  """OSError subclass whose constructor signature differs from what ends up in `args`."""

  def __new__(cls, device, code, detail):
    self = super().__new__(cls, code, detail)
    self.device = device
    return self

  def __init__(self, device, code, detail):
    super().__init__(code, detail)


class BatchError(ExceptionGroup):
  """Exception group with its own constructor signature."""

  def __new__(cls, errors, stage, exit_code):
    self = super().__new__(cls, '%d errors in %s' % (len(errors), stage), errors)
    self.stage = stage
    self.exit_code = exit_code
    return self

  def __init__(self, errors, stage, exit_code):
    super().__init__('%d errors in %s' % (len(errors), stage), errors)

  def derive(self, excs):
    return BatchError(excs, self.stage, self.exit_code)


class QuotaError(Exception):
  """Required arguments in __new__; `args` holds only the rendered message (one item): the proxy cannot be built
  from `args` and is made without running the class's __new__."""

  def __new__(cls, resource, limit):
    self = super().__new__(cls)
    self.resource, self.limit = resource, limit
    return self

  def __init__(self, resource, limit):
    super().__init__('quota exceeded for %s (limit %d)' % (resource, limit))


class FalsyAttrs(RuntimeError):
  """Attributes whose values are falsy but meaningful."""

  def __init__(self, msg):
    super().__init__(msg)
    self.code, self.note, self.flag, self.items, self.nothing = 0, '', False, [], None


class StopZero(StopIteration):
  """`value` (slot-backed) is 0."""


class KwOnlyNew(LookupError):
  """__new__ takes a keyword-only argument; `args` is empty."""

  def __new__(cls, *, key):
    self = super().__new__(cls)
    self.key = key
    return self

  def __init__(self, *, key):
    super().__init__()


class CodeErr(Exception):
  """__new__ refuses what ends up in `args` (with something other than a TypeError)"""
  def __new__(cls, code):
    self = super().__new__(cls, 'code %d' % int(code))
    self.code = int(code)
    return self

  def __init__(self, code):
    pass


class TaggedBase(Exception):
  """cannot be subclassed without a class keyword"""
  def __init_subclass__(cls, tag, **kw):
    super().__init_subclass__(**kw)
    cls.tag = tag


class Tagged(TaggedBase, tag='x'):
  pass


class ArgsProp(Exception):
  """`args` is a read-only property"""
  def __init__(self, code):
    super().__init__(code)
    self.code = code

  @property
  def args(self):
    return (self.code,)


class HttpError(Exception):
  """`__init__` accepts what ends up in `args` by arity, but not by meaning: it must not be run a second time"""
  def __init__(self, status):
    status = int(status)
    super().__init__('HTTP %d' % status)
    self.status = status


class TrailingBlank(ValueError):
  """the text ends in blanks and empty lines: they are part of it"""


def make_job_error():
  """A class made by a factory: every call gives a new class with the same module and qualified name."""
  class JobError(RuntimeError):
    def __init__(self, job, code):
      super().__init__(job, code)
      self.job, self.code = job, code
  return JobError


class _FactoryMade:
  __name__ = 'FactoryMade'


USER = [(HttpError, (404,)), (TrailingBlank, ('cannot parse value: ',)), (TrailingBlank, ('two empty lines follow\n\n',)), (CodeErr, (5,)), (Tagged, ('boom',)), (ArgsProp, (7,)), (_FactoryMade, ('nightly', 3)), (FalsyAttrs, ('falsy',)), (StopZero, (0,)), (QuotaError, ('disk', 3)), (KwOnlyNew, {'key': 'k1'}), (DeviceError, ('sda', 5, 'I/O error')), (BatchError, ([ValueError('a'), KeyError('b')], 'load', 3)),
        (NeedsArgs, (1, 'two')), (NeedsNewArgs, (404, 'nf')), (Slotted, ([1, 2],)), (CustomStr, ('m', {'k': 1})),
        (WithProperty, (21,))]


def builtin_table():
  out = []
  for name in sorted(dir(builtins)):
    cls = getattr(builtins, name)
    if not (isinstance(cls, type) and issubclass(cls, BaseException)):
      continue
    for args in _ctor_args(cls):
      try:
        cls(*args)
      except Exception:  # pylint: disable=broad-except
        continue
      out.append((cls, args))
      break
  return out


def _ctor_args(cls):
  if issubclass(cls, BaseExceptionGroup):
    inner = [ValueError('v'), TypeError('t')] if issubclass(cls, Exception) else [KeyboardInterrupt()]
    return [('grp', inner), ('grp', [ValueError('v')])]
  if issubclass(cls, UnicodeDecodeError):
    return [('utf-8', b'\xff', 0, 1, 'bad')]
  if issubclass(cls, UnicodeEncodeError):
    return [('ascii', '\xe9', 0, 1, 'bad')]
  if issubclass(cls, UnicodeTranslateError):
    return [('\xe9', 0, 1, 'bad')]
  if issubclass(cls, OSError):
    return [(2, 'No such file', 'fname.txt'), (13, 'denied'), ('plain',)]
  if issubclass(cls, SyntaxError):
    return [('bad syntax', ('f.py', 3, 7, 'x = (', 3, 9)), ('msg',)]
  if issubclass(cls, (ImportError,)):
    return [('no module',)]
  if issubclass(cls, StopIteration):
    return [(42,)]
  if issubclass(cls, SystemExit):
    return [(3,)]
  if issubclass(cls, (KeyError, AttributeError, NameError)):
    return [('key',)]
  return [('message', 7), ('message',), ()]


def all_cases():
  cases = []
  for cls, args in builtin_table():
    cases.append({'dom': 'exc', 'cls': cls.__name__, 'user': False, 'args_repr': repr(args)[:80]})
  for cls, args in USER:
    cases.append({'dom': 'exc', 'cls': cls.__name__, 'user': True, 'args_repr': repr(args)[:80]})
  return cases


# a TypeError raised by the call itself because positional parameters were supplied by nobody: the message still
# says which configurable, in which scope (a table on the real code)
MISSING_CASES = [{'dom': 'exc', 'kind': 'missing', 'nargs': na, 'scope': sc, 'via': via, 'bound': bound, 'kwo': kwo}
                 for na in (0, 1) for sc in ('sc', 'sc/inner', '') for via in ('call', 'reference')
                 for bound in (False, True) for kwo in (False, True)]
# ... and the same with a keyword whose name contains braces (the callable takes **kwargs): the names listed in the
# hint are data, not format fields
MISSING_CASES += [{'dom': 'exc', 'kind': 'missing', 'nargs': na, 'scope': sc, 'via': via, 'bound': bound, 'kwo': False,
                   'brace': br}
                  for na in (0, 1) for sc in ('sc', '') for via in ('call', 'reference') for bound in (False, True)
                  for br in ('{oops}', '{}', '{0}', 'a}b{')]


def run_missing_case(case):
  gin = core.fresh_gin()
  g = {'__name__': 'em'}
  kwo = bool(case.get('kwo'))     # a required keyword-only parameter besides (supplied: by the caller or by Gin)
  brace = case.get('brace')
  exec(f'def needs(a, b, c=0{", *, unit" if kwo else ""}{", **extra" if brace else ""}):\n  return (a, b, c)\ndef consumer(v=None):\n  return v\n', g)  # pylint: disable=exec-used
  n_args = case['nargs'] if case['via'] == 'call' else 0
  raw, orig_str, cls_facts = g['needs'], None, None
  try:
    raw(*([1] * n_args), **({'unit': 1} if kwo else {}), **({brace: 1} if brace else {}))
  except TypeError as e0:     # what Python itself says about this call: the text Gin extends
    orig_str, cls_facts = str(e0), class_facts(e0)
  reprs = {'needs': repr(raw)}
  needs = gin.configurable(g['needs'])
  consumer = gin.configurable(g['consumer'])
  if case['bound']:
    gin.bind_parameter('em.needs.c', {'k': 'run_{id', 'j': {1, 2}})    # something is bound (braces in its repr), not what is missing
  facts = {}
  import contextlib
  try:
    with contextlib.ExitStack() as st:
      if case['scope']:
        st.enter_context(gin.config_scope(case['scope']))
      if case['via'] == 'reference':
        gin.parse_config('em.consumer.v = @em.needs()' + ('\nem.needs.unit = 1' if kwo else ''))
        if brace:
          gin.bind_parameter(('', 'em.needs', brace), 1)
        consumer()
      else:
        needs(*([1] * case['nargs']), **({'unit': 1} if kwo else {}), **({brace: 1} if brace else {}))
    facts['raised'] = None
  except TypeError as e:
    s = str(e)
    facts['raised'] = 'TypeError'
    facts['names_configurable'] = "In call to configurable 'needs'" in s
    facts['names_scope'] = (f"in scope '{case['scope']}'" in s) if case['scope'] else True
    facts['msg'] = s[:400]
    facts['str'] = s
    facts['type_ok'] = type(e).__name__ == 'TypeError' and type(e).__module__ == 'builtins'
  except Exception as e:  # pylint: disable=broad-except
    facts['raised'] = type(e).__name__
    facts['msg'] = str(e)[:300]
  return {'facts': facts, 'orig': {}, 'is_exception': True, 'reprs': reprs, 'orig_str': orig_str, 'cls_facts': cls_facts}


def missing_levels(case, impl):
  n_args = case['nargs'] if case['via'] == 'call' else 0
  kwo, by_gin = bool(case.get('kwo')), case['via'] == 'reference'
  br = [case['brace']] if case.get('brace') else []
  return [{'name': 'needs', 'repr': impl['reprs']['needs'], 'scope': case['scope'], 'posNames': ['a', 'b'], 'nArgs': n_args,
           'kwNames': (['c'] if case['bound'] else []) + (['unit'] if kwo else []) + br,
           'ginBound': (['c'] if case['bound'] else []) + (['unit'] if kwo and by_gin else []) + (br if by_gin else []),
           'callerSupplied': ['a', 'b'][:n_args] + (['unit'] if kwo and not by_gin else []) + (br if not by_gin else []),
           'frames': []}]


LEVEL_NAMES = ['leaf', 'mid', 'top', 'l4', 'l5', 'l6', 'l7', 'l8', 'l9']
PARAMS = ['z', 'y', 'x', 'w4', 'w5', 'w6', 'w7', 'w8', 'w9']


# a StopIteration raised by a configurable that runs inside `__next__` of an iterator consumed by `yield from`: the
# interpreter reads the value slot of what arrives directly - run in a process of its own (a crash is an outcome)
YIELD_FROM_CASES = [{'dom': 'exc', 'kind': 'yieldfrom', 'sub': sub, 'scope': sc, 'depth': d}
                    for sub in (False, True) for sc in ('', 'sc') for d in (1, 2)]


def run_yieldfrom_case(case):
  import os
  import subprocess
  import sys
  code = (
      'import gin\n'
      'class MyStop(StopIteration):\n  pass\n'
      f'EXC = {"MyStop" if case["sub"] else "StopIteration"}\n'
      '@gin.configurable\ndef nxt():\n  raise EXC(5)\n'
      '@gin.configurable\ndef outer():\n  return nxt()\n'
      'class It:\n  def __iter__(self):\n    return self\n'
      f'  def __next__(self):\n    return {"outer" if case["depth"] == 2 else "nxt"}()\n'
      'def g():\n  x = yield from It()\n  return x\n'
      'import contextlib\n'
      f'with (gin.config_scope({case["scope"]!r}) if {case["scope"]!r} else contextlib.nullcontext()):\n'
      '  try:\n    next(g())\n    print("no StopIteration")\n'
      '  except StopIteration as e:\n    print("value", e.value)\n')
  env = dict(os.environ, PYTHONPATH=os.environ.get('GIN_REPO', '/repo'))
  r = subprocess.run([sys.executable, '-c', code], capture_output=True, text=True, env=env, timeout=120)
  return {'facts': {'rc': r.returncode, 'out': r.stdout.strip()[:200], 'err': r.stderr.strip()[-200:]}, 'orig': {},
          'is_exception': True}


def gen_cases(rng, tier, boost=1):
  yield from MISSING_CASES
  yield from YIELD_FROM_CASES
  base = all_cases()
  for c in base:
    for depth in ([1, 3] if tier == 'quick' else [1, 2, 3]):
      for via in ('call', 'reference'):
        yield dict(c, depth=depth, via=via)
    # raised by a configurable that is being run as the constructor of a gin.singleton
    yield dict(c, depth=1, via='singleton')
    if c['cls'] == 'FactoryMade':
      for depth in (1, 2, 3):
        yield dict(c, depth=depth, via='call', twin=True)
        yield dict(c, depth=depth, via='reference', twin=True)
    # longer call paths: any depth, helpers that enter a scope of their own before calling the next configurable,
    # parameters bound by Gin on some levels, the entry called with a keyword or positional argument
    for _ in range((1 if tier == 'quick' else 4) * boost):
      depth = rng.randint(2, 9)
      via = rng.choice(['call', 'call', 'reference', 'singleton'])
      yield dict(c, depth=depth, via=via,
                 nest=[None] + [rng.choice([None, None, 'n%d' % k, 'a/b']) for k in range(1, depth)],
                 bind=sorted(rng.sample(range(depth), rng.randint(0, min(3, depth)))),
                 entry=rng.choice([None, None, 'kw', 'pos']) if via == 'call' else None,
                 req=[rng.choice([None, None, 'pos', 'kw', 'gin']) for k in range(depth - 1)] + [rng.choice([None, 'gin'])],
                 # a required keyword-only parameter on some levels (supplied by the caller or by Gin)
                 kwo=[rng.choice([None, None, 'kw', 'gin']) for k in range(depth - 1)] +
                     [rng.choice([None, 'gin', 'kw'] if via == 'call' else [None, 'gin'])],
                 # another exception, of a class with the same module and qualified name where the class comes from a
                 # factory, went the same way just before
                 twin=rng.random() < 0.4,
                 outer=rng.choice(['sc', 'sc', 'sc/inner', '']))


def _make(case):
  if case['user']:
    cls, args = next((c, a) for c, a in USER if c.__name__ == case['cls'] and repr(a)[:80] == case['args_repr'])
    if cls is _FactoryMade:
      cls = make_job_error()
  else:
    cls, args = next((c, a) for c, a in builtin_table() if c.__name__ == case['cls'])
  exc = cls(**args) if isinstance(args, dict) else cls(*args)
  cls = type(exc)   # OSError(errno, ...) constructs the errno-specific subclass
  if isinstance(exc, ImportError):
    exc.name, exc.path = 'modname', '/p/x.py'
  if isinstance(exc, (AttributeError, NameError)) and hasattr(exc, 'name'):
    try:
      exc.name = 'attr_name'
    except Exception:  # pylint: disable=broad-except
      pass
  return cls, exc


def public_attrs(exc, gin, names=None):
  out = {}
  for a in (names if names is not None else dir(exc)):
    if a.startswith('_'):
      continue
    try:
      v = getattr(exc, a)
    except Exception as e:  # pylint: disable=broad-except
      out[a] = {'raises': type(e).__name__}
      continue
    if callable(v):
      continue
    enc = encode(v, gin)
    if isinstance(enc, dict) and enc.get('o', 0) >= 900000:
      enc = {'repr': type(v).__name__ + ':' + (repr(v) if not isinstance(v, BaseException) else repr(v.args))[:80]}
    if isinstance(v, (list, tuple)) and any(isinstance(x, BaseException) for x in v):
      enc = {'excs': [type(x).__name__ + repr(x.args) for x in v]}
    out[a] = enc
  return out


def run_impl(case):
  if case.get('kind') == 'yieldfrom':
    return run_yieldfrom_case(case)
  if case.get('kind') == 'missing':
    return run_missing_case(case)
  gin = core.fresh_gin()
  cls, exc = _make(case)
  g = {'__name__': 'em', 'gin': gin, 'EXC': exc}
  depth = case['depth']
  nest = case.get('nest') or [None] * depth
  names = LEVEL_NAMES[:depth]
  req = case.get('req') or [None] * depth
  kwo = case.get('kwo') or [None] * depth
  sig = lambda k, dflt: (('q, ' if req[k] else '') + f'{PARAMS[k]}={dflt}' +      # noqa: E731  a required positional parameter
                         (', *, unit' if kwo[k] else ''))                          # / keyword-only parameter on some levels
  src = f'def leaf({sig(0, 0)}):\n  raise EXC\n'
  for k in range(1, depth):
    inner, name = LEVEL_NAMES[k - 1], LEVEL_NAMES[k]
    cargs = {None: [], 'gin': [], 'pos': ['0'], 'kw': ['q=0']}[req[k - 1]] + (['unit=1'] if kwo[k - 1] == 'kw' else [])
    call = inner + '(' + ', '.join(cargs) + ')'
    # a plain (unconfigured) frame between two configurables; it may enter a scope of its own
    if nest[k]:
      src += f'def helper_{name}():\n  with gin.config_scope({nest[k]!r}):\n    return {call}\n'
    else:
      src += f'def helper_{name}():\n  return {call}\n'
    src += f'def {name}({sig(k, None)}):\n  return helper_{name}()\n'
  src += 'def consumer(v=None):\n  return v\n'
  exec(src, g)  # pylint: disable=exec-used
  reprs = {n: repr(g[n]) for n in names}
  for n in names + ['consumer']:
    g[n] = gin.configurable(g[n])
  for k in case.get('bind') or []:
    gin.bind_parameter(f'em.{LEVEL_NAMES[k]}.{PARAMS[k]}', 5)
  for k in range(depth):
    if req[k] == 'gin':
      gin.bind_parameter(f'em.{LEVEL_NAMES[k]}.q', 0)
    if kwo[k] == 'gin':
      gin.bind_parameter(f'em.{LEVEL_NAMES[k]}.unit', 1)
  entry = names[-1]
  call_args, call_kwargs = (), {}
  if case['via'] == 'reference':
    gin.parse_config(f'em.consumer.v = @em.{entry}()')
    fn = g['consumer']
  elif case['via'] == 'singleton':
    gin.parse_config(f'em.consumer.v = @sx/gin.singleton()\nsx/gin.singleton.constructor = @em.{entry}')
    fn = g['consumer']
    reprs['singleton'] = repr(gin.config._REGISTRY['gin.singleton'].wrapped)  # pylint: disable=protected-access
  else:
    fn = g[entry]
    if case.get('entry') == 'kw':
      call_kwargs = {PARAMS[depth - 1]: 1}
    elif case.get('entry') == 'pos' and not req[depth - 1]:
      call_args = (1,)
    if kwo[depth - 1] == 'kw':
      call_kwargs['unit'] = 1
  orig = public_attrs(exc, gin)
  orig_str = None
  try:
    orig_str = str(exc)
  except Exception:  # pylint: disable=broad-except
    pass
  try:
    type(exc)(*exc.args)
    ctor_ok = True
  except Exception:  # pylint: disable=broad-except
    ctor_ok = False
  res = {'ctor_accepts_args': ctor_ok, 'orig': orig, 'orig_args': encode(list(exc.args), gin) if not any(isinstance(a, (list,)) and a and isinstance(a[0], BaseException) for a in exc.args) else {'n': len(exc.args)},
         'is_exception': isinstance(exc, Exception), 'reprs': reprs, 'orig_str': orig_str,
         'cls_facts': class_facts(exc)}
  outer = case.get('outer', 'sc')
  import contextlib
  if case.get('twin'):
    twin_cls, twin = _make(case)
    del twin_cls
    g['EXC'] = twin
    try:
      with (gin.config_scope(outer) if outer else contextlib.nullcontext()):
        fn(*call_args, **call_kwargs)
    except BaseException:  # pylint: disable=broad-except
      pass
    g['EXC'] = exc
    exc.__traceback__ = None
    if case['via'] == 'singleton':
      gin.config._SINGLETONS.clear()  # pylint: disable=protected-access
  with (gin.config_scope(outer) if outer else contextlib.nullcontext()):
    try:
      fn(*call_args, **call_kwargs)
      res['caught'] = None
    except cls as e:   # the original except clause must catch it
      res['caught_by_original_clause'] = True
      res.update(_describe(e, exc, cls, gin, orig_str, _scope_of(case, 0)))
    except BaseException as e:  # pylint: disable=broad-except
      res['caught_by_original_clause'] = False
      res.update(_describe(e, exc, cls, gin, orig_str, _scope_of(case, 0)))
  return res


def _scope_of(case, k):
  """the scope active while configurable number k (0 = leaf) of the path runs"""
  depth = case['depth']
  nest = case.get('nest') or [None] * depth
  parts = ['sx'] if case['via'] == 'singleton' else ([case.get('outer', 'sc')] if case.get('outer', 'sc') else [])
  for j in range(depth - 1, k, -1):
    if nest[j]:
      parts.append(nest[j])
  return '/'.join(parts)


def class_facts(exc):
  """facts about Python, not about Gin: can an (uninitialised) instance of a subclass of the raised class be made and
  given the original's args — if any step fails, in whatever way, no proxy can exist and the original object travels"""
  cls = type(exc)
  facts = {'name': cls.__name__, 'module': cls.__module__, 'bases': [b.__name__ for b in cls.__mro__],
           'newAcceptsArgs': False, 'bareNewWorks': False}
  try:
    sub = type(cls)('P', (cls,), {'__init__': lambda self, *a, **k: None})
  except Exception:  # pylint: disable=broad-except
    return facts
  made = None
  for key, make in (('newAcceptsArgs', lambda: sub.__new__(sub, *exc.args)), ('bareNewWorks', lambda: BaseException.__new__(sub))):
    try:
      obj = make()
      facts[key] = True
      made = made if made is not None else obj
    except TypeError:
      facts[key] = False
    except Exception:  # pylint: disable=broad-except
      return dict(facts, newAcceptsArgs=False, bareNewWorks=False)
  if made is not None:
    if made is exc or not isinstance(made, sub):
      return None     # __new__ hands out an existing object: outside the model
    try:
      made.args = exc.args
    except Exception:  # pylint: disable=broad-except
      return dict(facts, newAcceptsArgs=False, bareNewWorks=False)
  return facts


def levels_of(case, impl):
  """the configurables the exception passes, innermost first, as the model wants them"""
  depth = case['depth']
  bind = set(case.get('bind') or [])
  req = case.get('req') or [None] * depth
  out = []
  for k in range(depth):
    is_entry = k == depth - 1
    how = case.get('entry') if is_entry else None
    if how == 'pos' and req[k]:
      how = None
    bound = k in bind
    kw = [PARAMS[k]] if (how == 'kw' or (bound and how != 'pos')) else []
    gin_bound = [PARAMS[k]] if bound else []
    caller = [PARAMS[k]] if how else []
    n_args = 1 if how == 'pos' else 0
    if req[k] == 'pos':
      n_args, caller = 1, ['q'] + caller
    elif req[k] == 'kw':
      kw, caller = ['q'] + kw, ['q'] + caller
    elif req[k] == 'gin':
      kw, gin_bound = ['q'] + kw, ['q'] + gin_bound
    kwo_k = (case.get('kwo') or [None] * depth)[k]
    if kwo_k == 'kw':
      kw, caller = kw + ['unit'], caller + ['unit']
    elif kwo_k == 'gin':
      kw, gin_bound = kw + ['unit'], gin_bound + ['unit']
    out.append({'name': LEVEL_NAMES[k], 'repr': impl['reprs'][LEVEL_NAMES[k]], 'scope': _scope_of(case, k),
                'posNames': ['q'] if req[k] else [],     # positional parameters without a default
                'nArgs': n_args, 'kwNames': kw, 'ginBound': gin_bound, 'callerSupplied': caller,
                'frames': [LEVEL_NAMES[k + 1], 'helper_' + LEVEL_NAMES[k + 1]] if k + 1 < depth else []})
  if case['via'] == 'singleton':
    out.append({'name': 'singleton', 'repr': impl['reprs']['singleton'], 'scope': 'sx', 'posNames': ['constructor'],
                'nArgs': 0, 'kwNames': ['constructor'], 'ginBound': ['constructor'], 'callerSupplied': [], 'frames': []})
  return out


def _describe(e, exc, cls, gin, orig_str, scope='sc'):
  d = {'same_object': e is exc, 'isinstance': isinstance(e, cls), 'type_name': type(e).__name__,
       'type_name_matches': type(e).__name__ == cls.__name__ and type(e).__module__ == cls.__module__,
       'subclass_of_original': issubclass(type(e), cls)}
  if isinstance(e, TypeError) and not isinstance(exc, TypeError):
    d['replaced_by'] = 'TypeError: ' + str(e)[:120]
  try:
    d['attrs'] = public_attrs(e, gin, names=[a for a in dir(exc) if not a.startswith('_')])
  except Exception as ex:  # pylint: disable=broad-except
    d['attrs'] = {'harness': type(ex).__name__}
  try:
    d['args'] = encode(list(e.args), gin) if not any(isinstance(a, (list,)) and a and isinstance(a[0], BaseException) for a in e.args) else {'n': len(e.args)}
  except Exception as ex:  # pylint: disable=broad-except
    d['args'] = {'raises': type(ex).__name__}
  frames = [f.name for f in traceback.extract_tb(e.__traceback__)]
  d['tb_has_leaf'] = 'leaf' in frames
  d['tb_user_frames'] = [n for n in frames if n in LEVEL_NAMES or (n.startswith('helper_') and n[7:] in LEVEL_NAMES)]
  try:
    s = str(e)
    d['str'] = s
    d['str_prefix_ok'] = orig_str is None or s.startswith(orig_str)
    d['str_names_configurable'] = ("In call to configurable 'leaf'" in s) and ((f"in scope '{scope}'" in s) if scope else True)
  except Exception as ex:  # pylint: disable=broad-except
    d['str_prefix_ok'] = False
    d['str_names_configurable'] = 'raises ' + type(ex).__name__
  return d


def to_driver(case, impl):
  if case.get('kind') == 'yieldfrom':
    return {'dom': 'exc', 'orig': [], 'is_exception': True}
  d = {'dom': 'exc', 'orig': [[k, canon(v)] for k, v in sorted(impl['orig'].items())],
       'is_exception': impl['is_exception']}
  if impl.get('cls_facts') and impl.get('orig_str') is not None:
    missing = case.get('kind') == 'missing'
    d['chain'] = {'cls': impl['cls_facts'], 'str': impl['orig_str'], 'tb': [] if missing else ['leaf'],
                  'levels': missing_levels(case, impl) if missing else levels_of(case, impl)}
  return d


def compare(case, impl, model):
  if 'attrs' not in model:
    return f'driver error: {model}'
  if case.get('kind') == 'yieldfrom':
    return None
  if case.get('kind') == 'missing':
    # the text of the TypeError for parameters nobody supplied: Python's own message, the hint, the configurable
    f = impl['facts']
    if 'str' in model and f.get('raised') == 'TypeError':
      if f.get('str') != model['str']:
        return f'missing-argument TypeError: text {f.get("str")!r} but the model says {model["str"]!r}'
      if model['same_object'] or not f.get('type_ok'):
        return f'missing-argument TypeError: model same_object={model["same_object"]}, class as raised: {f.get("type_ok")}'
    return None
  if 'same_object' in model and impl.get('caught', 'x') is not None:
    # the model of the whole call path (Gin/ExcChain.lean): which object arrives, its text, its traceback
    if bool(impl.get('same_object')) != model['same_object']:
      return (f'{case["cls"]}: model says the {"original object" if model["same_object"] else "a proxy"} reaches the caller, '
              f'the implementation delivered {"the original" if impl.get("same_object") else impl.get("type_name")}')
    if not model['same_object']:
      if not (impl.get('isinstance') and impl.get('subclass_of_original') and impl.get('caught_by_original_clause')) \
         or not model['catchable']:
        return f'{case["cls"]}: not an instance of the original class (model catchable={model["catchable"]})'
      if not impl.get('type_name_matches'):
        return f'{case["cls"]}: the class that arrives is named {impl.get("type_name")}, model {model["type_module"]}.{model["type_name"]}'
    if isinstance(impl.get('str'), str) and impl['str'] != model['str']:
      return f'{case["cls"]}: text {impl["str"]!r} but the model says {model["str"]!r}'
    if impl.get('tb_user_frames') != model['tb']:
      return f'{case["cls"]}: traceback frames {impl.get("tb_user_frames")} but the model says {model["tb"]}'
  if not impl['is_exception']:
    return None
  got = {k: canon(v) for k, v in (impl.get('attrs') or {}).items()}
  want = dict((k, v) for k, v in model['attrs'])
  for k, v in want.items():
    if got.get(k) != v:
      return f'attribute {k}: proxy {got.get(k)} model (= original) {v}'
  return None


def oracle(case, impl):
  if case.get('kind') == 'yieldfrom':
    f = impl['facts']
    if f['rc'] != 0 or f['out'] != 'value 5':
      return (f'StopIteration(5) raised by a configurable inside __next__ under `yield from` ({case}): process exit {f["rc"]} '
              f'(negative = killed by a signal), output {f["out"]!r} {f["err"]!r}; without Gin the generator returns 5')
    return None
  if case.get('kind') == 'missing':
    f = impl['facts']
    if f.get('raised') != 'TypeError':
      return f'a call with positional parameters nobody supplied raised {f.get("raised")}: {f.get("msg")}'
    if not f.get('names_configurable') or not f.get('names_scope'):
      return (f'TypeError for unsupplied positional parameters ({case["via"]}, scope {case["scope"]!r}): the message does not '
              f'name the configurable and the active scope: {f.get("msg")!r}')
    return None
  if impl.get('caught', 'x') is None:
    return 'no exception reached the caller'
  if not impl['is_exception']:
    if not impl.get('same_object'):
      return f'{case["cls"]} (not an Exception subclass) did not pass through untouched: got {impl.get("type_name")}'
    return None
  if impl.get('replaced_by'):
    return f'{case["cls"]} was replaced by {impl["replaced_by"]}'
  facts = impl.get('cls_facts')
  unbuildable = facts is None or not (facts.get('newAcceptsArgs') or facts.get('bareNewWorks'))
  if impl.get('same_object') and (not impl.get('ctor_accepts_args') or unbuildable):
    # a class that cannot even be re-created from its own `args` (constructor signature differs), or of which no
    # subclass instance can be made at all (it cannot be subclassed, `args` cannot be set): the original exception
    # itself arrives, nothing changed and nothing added
    return None
  if not impl.get('caught_by_original_clause') or not impl.get('isinstance') or not impl.get('subclass_of_original'):
    return f'{case["cls"]}: not catchable as the original class (got {impl.get("type_name")})'
  if not impl.get('type_name_matches'):
    return f'{case["cls"]}: class name/module differ from the raised class: {impl.get("type_name")}'
  if impl.get('args') != impl['orig_args']:
    return f'{case["cls"]}: args {impl.get("args")} != original {impl["orig_args"]}'
  for k, v in impl['orig'].items():
    if k in ('add_note',):
      continue
    if impl['attrs'].get(k) != v:
      return f'{case["cls"]}: attribute {k} reads {impl["attrs"].get(k)} on the caught exception, {v} on the original'
  if not impl.get('tb_has_leaf'):
    return f'{case["cls"]}: original traceback lost'
  if case['via'] == 'call':
    want = ['leaf']
    for k in range(1, case['depth']):
      want = [LEVEL_NAMES[k], 'helper_' + LEVEL_NAMES[k]] + want
    if impl.get('tb_user_frames') != want:
      return (f'{case["cls"]}: the traceback should lead from the outermost configurable to the raise site through '
              f'{want}, it shows {impl.get("tb_user_frames")}')
  if not impl.get('str_prefix_ok') or impl.get('str_names_configurable') is not True:
    return f'{case["cls"]}: message not "original + configurable and scope": {impl.get("str_names_configurable")}'
  return None


def nontrivial(case, impl):
  if case.get('kind') in ('missing', 'yieldfrom'):
    return True
  return len([k for k in impl.get('orig', {}) if k != 'args']) >= 1 or case['user']


def tally(stats, case, impl):
  if case.get('kind') == 'yieldfrom':
    stats['yield_from'] = stats.get('yield_from', 0) + 1
    return
  if case.get('kind') == 'missing':
    stats['missing_positional'] = stats.get('missing_positional', 0) + 1
    return
  stats['classes'] = stats.get('classes', 0) + 1
  k = 'via:' + case['via'] + ':depth%d' % case['depth']
  stats[k] = stats.get(k, 0) + 1
  if not impl['is_exception']:
    stats['base_only'] = stats.get('base_only', 0) + 1


def classify(case, impl, model, why_oracle, why_model, findings):
  return None
