"""C11 — only configurable parameters of registered configurables can ever be bound."""
import gen_gin as G
import refmodel
import gindom
from props import c01


def _dyn(case):
  return case.get('dom') == 'dyn'


# a functools.partial registered as a configurable: what the partial consumed is no longer one of its parameters (binding
# it is refused on every path); what is left is bindable and injected - a finite table on the real code
PARTIAL_CASES = [{'dom': 'gin', '_kind': 'partial', 'path': path, 'by': by, 'ops': []}
                 for path in ('str', 'tuple', 'scoped', 'text', 'block') for by in ('positional', 'keyword')]


def run_partial_case(case):
  import functools
  import core
  gin = core.fresh_gin()

  def scale(factor, x=1, offset=0):
    return factor * x + offset
  part = functools.partial(scale, 2) if case['by'] == 'positional' else functools.partial(scale, factor=2)
  double = gin.external_configurable(part, name='double', module='pt')
  facts = {}

  def bind(param, value):
    path = case['path']
    if path == 'str':
      gin.bind_parameter(f'pt.double.{param}', value)
    elif path == 'tuple':
      gin.bind_parameter(('', 'pt.double', param), value)
    elif path == 'scoped':
      gin.bind_parameter(f'sc/double.{param}', value)
    elif path == 'text':
      gin.parse_config(f'pt.double.{param} = {value!r}\n')
    else:
      gin.parse_config(f'double:\n  {param} = {value!r}\n')
  try:
    before = {k: dict(v) for k, v in gin.config._CONFIG.items()}  # pylint: disable=protected-access
    try:
      bind('factor', 10)
      facts['consumed'] = 'accepted'
    except Exception as e:  # pylint: disable=broad-except
      facts['consumed'] = type(e).__name__
    # (a keyword the partial supplies can be overridden by a later keyword in Python; gin still must not offer it:
    # the partial's own signature lists it keyword-only with a default, so it is a parameter of the partial)
    facts['store_unchanged'] = {k: dict(v) for k, v in gin.config._CONFIG.items()} == before  # pylint: disable=protected-access
    bind('offset', 5)
    with gin.config_scope('sc'):
      facts['result'] = double(x=3)
  except Exception as e:  # pylint: disable=broad-except
    facts['error'] = f'{type(e).__name__}: {e}'[:300]
  return {'out': [], 'facts': facts}


# a positional-only parameter (`def f(a=1, /, b=2)`): Gin supplies values by keyword, so the signature cannot accept a
# bound value for it - binding it is refused on every path (it used to be accepted, and every later call then failed:
# D56); with `**kwargs` the name is acceptable (it lands there); the other parameters stay bindable; nothing the
# operative configuration lists afterwards fails to replay - a finite table on the real code
POSONLY_CASES = [{'dom': 'gin', '_kind': 'posonly', 'path': path, 'shape': shape, 'varkw': varkw, 'ops': []}
                 for path in ('str', 'tuple', 'scoped', 'text', 'block', 'hook')
                 for shape in ('fn', 'class_configurable', 'class_external', 'class_register', 'method')
                 for varkw in (False, True)]


def run_posonly_case(case):
  import core
  gin = core.fresh_gin()
  g = {'__name__': 'po', 'gin': gin}
  kw = ', **kw' if case['varkw'] else ''
  ret = '(a, b, dict(kw))' if case['varkw'] else '(a, b, {})'
  shape = case['shape']
  if shape == 'fn':
    exec(f'def tgt(a=1, /, b=2{kw}):\n  return {ret}\n', g)  # pylint: disable=exec-used
    call = gin.configurable(g['tgt'])
    sel = 'po.tgt'
  elif shape == 'method':
    exec(f'class Tgt:\n  @gin.register\n  def run(self, a=1, /, b=2{kw}):\n    return {ret}\n', g)  # pylint: disable=exec-used
    cls = gin.register(g['Tgt'])
    call = lambda: gin.get_configurable(g['Tgt'])().run()
    sel = 'po.Tgt.run'
  else:
    exec(f'class Tgt:\n  def __init__(self, a=1, /, b=2{kw}):\n    self.v = {ret}\n', g)  # pylint: disable=exec-used
    if shape == 'class_configurable':
      cls = gin.configurable(g['Tgt'])
    elif shape == 'class_external':
      cls = gin.external_configurable(g['Tgt'])
    else:
      gin.register(g['Tgt'])
      cls = gin.get_configurable(g['Tgt'])
    call = lambda: cls().v
    sel = 'po.Tgt'
  leaf = sel.split('.', 1)[1]
  facts = {}

  def bind(param, value):
    path = case['path']
    if path == 'str':
      gin.bind_parameter(f'{sel}.{param}', value)
    elif path == 'tuple':
      gin.bind_parameter(('', sel, param), value)
    elif path == 'scoped':
      gin.bind_parameter(f'sc/{leaf}.{param}', value)
    elif path == 'text':
      gin.parse_config(f'{sel}.{param} = {value!r}\n')
    elif path == 'block':
      gin.parse_config(f'{leaf}:\n  {param} = {value!r}\n')
    else:
      gin.config.register_finalize_hook(lambda config: {f'{sel}.{param}': value})
      try:
        gin.finalize()
      finally:
        gin.config._FINALIZE_HOOKS.pop()  # pylint: disable=protected-access
        if gin.config_is_locked():
          gin.config._set_config_is_locked(False)  # pylint: disable=protected-access
  try:
    before = {k: dict(v) for k, v in gin.config._CONFIG.items()}  # pylint: disable=protected-access
    try:
      bind('a', 10)
      facts['posonly'] = 'accepted'
    except Exception as e:  # pylint: disable=broad-except
      facts['posonly'] = type(e).__name__
    facts['store_unchanged'] = {k: dict(v) for k, v in gin.config._CONFIG.items()} == before  # pylint: disable=protected-access
    bind('b', 5)
    with gin.config_scope('sc'):
      facts['result'] = list(call())
      facts['result'][2] = [list(kv) for kv in sorted(facts['result'][2].items())]
    text = gin.operative_config_str()
    facts['operative_lists_a'] = any(l.strip().endswith('.a = 1') or l.strip().endswith('.a = 10') for l in text.split('\n'))
    gin.clear_config()
    gin.parse_config(text)
    with gin.config_scope('sc'):
      facts['replay'] = list(call())
      facts['replay'][2] = [list(kv) for kv in sorted(facts['replay'][2].items())]
  except Exception as e:  # pylint: disable=broad-except
    facts['error'] = f'{type(e).__name__}: {e}'[:300]
  return {'out': [], 'facts': facts}


# under dynamic registration the constructor of a class can be named as an attribute (`mod.Cls.__init__.param`): the
# lists the class was registered with guard it all the same - a finite table on the real code
INIT_CASES = [{'dom': 'gin', '_kind': 'init_lists', 'lists': ls, 'first': first, 'ops': []}
              for ls in ('deny', 'allow') for first in ('init', 'class', 'method')]
# ... and so it is for a class that is built by `__new__` (no `__init__` of its own): `mod.Cls.__new__.param` names its
# constructor; `via`: how the class got its lists
INIT_CASES += [{'dom': 'gin', '_kind': 'init_lists', 'lists': ls, 'first': first, 'ctor': '__new__', 'via': via, 'ops': []}
               for ls in ('deny', 'allow') for first in ('init', 'class', 'method')
               for via in ('register', 'external', 'decorator')]


def run_init_case(case):
  import sys
  import types
  import core
  gin = core.fresh_gin()
  mod = types.ModuleType('c11_vault_mod')
  sys.modules['c11_vault_mod'] = mod
  ctor = case.get('ctor', '__init__')
  if ctor == '__init__':
    exec('class Vault:\n  def __init__(self, label="l", secret="original"):\n    self.label, self.secret = label, secret\n'  # pylint: disable=exec-used
         '  def open(self, code=0):\n    return code\n', mod.__dict__)
  else:
    exec('class Vault:\n  def __new__(cls, label="l", secret="original"):\n    self = object.__new__(cls)\n'  # pylint: disable=exec-used
         '    self.label, self.secret = label, secret\n    return self\n'
         '  def open(self, code=0):\n    return code\n', mod.__dict__)
  mod.Vault.__module__ = 'c11_vault_mod'
  for fn in (getattr(mod.Vault, ctor), mod.Vault.open):
    fn.__module__ = 'c11_vault_mod'
  lists = {'denylist': ['secret']} if case['lists'] == 'deny' else {'allowlist': ['label']}
  via = case.get('via', 'register')
  if via == 'register':
    gin.register(mod.Vault, **lists)
  elif via == 'external':
    gin.external_configurable(mod.Vault, **lists)
  else:
    mod.Vault = gin.configurable(**lists)(mod.Vault)
  dr = 'from __gin__ import dynamic_registration\nimport c11_vault_mod\n'
  facts = {}
  try:
    if case['first'] == 'class':
      gin.parse_config(dr + 'c11_vault_mod.Vault.label = "first"\n')
    elif case['first'] == 'method':
      gin.parse_config(dr + 'c11_vault_mod.Vault.open.code = 3\n')
    before = {k: dict(v) for k, v in gin.config._CONFIG.items()}  # pylint: disable=protected-access
    try:
      gin.parse_config(dr + f'c11_vault_mod.Vault.{ctor}.secret = "INJECTED"\n')
      facts['excluded'] = 'accepted'
    except ValueError:
      facts['excluded'] = 'ValueError'
    facts['store_unchanged'] = {k: dict(v) for k, v in gin.config._CONFIG.items()} == before  # pylint: disable=protected-access
    gin.parse_config(dr + f'c11_vault_mod.Vault.{ctor}.label = "through init"\n')
    inst = gin.get_configurable(mod.Vault)()
    facts['instance'] = [inst.label, inst.secret]
  except Exception as e:  # pylint: disable=broad-except
    facts['error'] = f'{type(e).__name__}: {e}'[:300]
  finally:
    sys.modules.pop('c11_vault_mod', None)
  return {'out': [], 'facts': facts}


# config text parsed with skip_unknown given as a collection of names: a name in it that IS registered is not unknown,
# so a binding to a parameter it does not offer is rejected like anywhere else - a finite table on the real code
SKIP_CASES = [{'dom': 'gin', '_kind': 'skip_named', 'lists': ls, 'param': param, 'container': cont, 'form': form,
               'spelling': sp, 'api': api, 'probe': probe, 'ops': []}
              for ls, param in (('deny', 'seed'), ('allow', 'seed'), ('deny', 'no_such'), ('allow', 'no_such'),
                                ('none', 'no_such'))
              for cont in ('list', 'tuple', 'set') for form in ('text', 'scoped', 'block')
              for sp in ('full', 'partial') for api in ('parse_config', 'files_and_bindings')
              for probe in (('fn',) if api == 'files_and_bindings' else ('fn', 'class'))]


def run_skip_case(case):
  import core
  gin = core.fresh_gin()
  g = {'__name__': 'sk'}
  if case['probe'] == 'fn':
    exec('def evaluate(model="m", seed=0):\n  return [model, seed]\n', g)  # pylint: disable=exec-used
  else:
    exec('class evaluate:\n  def __init__(self, model="m", seed=0):\n    self.got = [model, seed]\n', g)  # pylint: disable=exec-used
  lists = {'deny': {'denylist': ['seed']}, 'allow': {'allowlist': ['model']}, 'none': {}}[case['lists']]
  evaluate = gin.configurable(**lists)(g['evaluate']) if lists else gin.configurable(g['evaluate'])
  spelled = 'sk.evaluate' if case['spelling'] == 'full' else 'evaluate'
  names = ['train', spelled, 'zz.other']
  skip = {'list': list, 'tuple': tuple, 'set': set}[case['container']](names)
  param = case['param']
  text = {'text': f'{spelled}.{param} = 7\n', 'scoped': f'a/b/{spelled}.{param} = 7\n',
          'block': f'{spelled}:\n  {param} = 7\n'}[case['form']]

  def parse(t):
    if case['api'] == 'parse_config':
      gin.parse_config(t, skip_unknown=skip)
    else:
      gin.parse_config_files_and_bindings([], [t], finalize_config=False, skip_unknown=skip)
  facts = {}
  try:
    gin.parse_config('sk.evaluate.model = "big"\n')
    before = {k: dict(v) for k, v in gin.config._CONFIG.items()}  # pylint: disable=protected-access
    try:
      parse(text)
      facts['rejected'] = 'accepted'
    except ValueError:
      facts['rejected'] = 'ValueError'
    facts['store_unchanged'] = {k: dict(v) for k, v in gin.config._CONFIG.items()} == before  # pylint: disable=protected-access
    with gin.config_scope('a/b'):
      r = evaluate()
    facts['received'] = r if case['probe'] == 'fn' else r.got
  except Exception as e:  # pylint: disable=broad-except
    facts['error'] = f'{type(e).__name__}: {e}'[:300]
  return {'out': [], 'facts': facts}


TABLE_KINDS = ('partial', 'init_lists', 'skip_named', 'posonly')


def run_impl(case):
  if case.get('_kind') == 'skip_named':
    return run_skip_case(case)
  if case.get('_kind') == 'init_lists':
    return run_init_case(case)
  if case.get('_kind') == 'partial':
    return run_partial_case(case)
  if case.get('_kind') == 'posonly':
    return run_posonly_case(case)
  if _dyn(case):
    from props import c19
    return c19.run_impl(case)
  return gindom.run_impl(case)


def to_driver(case, impl):
  if _dyn(case):
    from props import c19
    return c19.to_driver(case, impl)
  return gindom.to_driver(case, impl)


def compare(case, impl, model):
  if case.get('_kind') in TABLE_KINDS:
    return None
  if _dyn(case):
    from props import c19
    return c19.compare(case, impl, model)
  return gindom.compare(case, impl, model)


def tally(stats, case, impl):
  if case.get('_kind') in TABLE_KINDS:
    stats[case['_kind'] + '_cases'] = stats.get(case['_kind'] + '_cases', 0) + 1
    return
  if _dyn(case):
    stats['dynamic_registration_cases'] = stats.get('dynamic_registration_cases', 0) + 1
    k = 'dyn:outcome=' + str(impl.get('err'))
    stats[k] = stats.get(k, 0) + 1
    for kind, _names in (case.get('_prereg_lists') or {}).values():
      stats['dyn:list=' + kind] = stats.get('dyn:list=' + kind, 0) + 1
    return
  c01.tally(stats, case, impl)

ID = 'C11'
DOMAIN = 'gin/state'
PROPS_FILES = ['Gin/Props/C11.lean', 'Gin/Props/C11b.lean']
ANCHOR_FILES = ['config.py', 'selector_map.py']
RULE = ('[finite tables: partials; `Cls.__init__` / `Cls.__new__` under dynamic registration; skip_unknown collections naming a registered configurable] [fn probes under functools.wraps layers; class probes whose base defines the other constructor with *args/**kwargs; registered methods with their own allow/deny list] '
        '2-4 registered probes with random signatures and allow/deny lists (sometimes a class whose method was '
        'registered first), then 6-14 binding attempts drawn from {valid, unknown configurable, unknown parameter, '
        'not allowlisted, denylisted, method without class, ambiguous spelling} x {tuple, list, string key, config '
        'text, block, finalize hook} x random scope, the whole store observed after every attempt; non-trivial = at '
        'least one accepted and one rejected attempt, the rejected one following an accepted one; distinct = canonical ops')
TRUSTED_BASE = ['Lean 4.33 kernel', 'axioms ⊆ {propext, Classical.choice, Quot.sound}', 'JSON glue (Gin/Drv)',
                'harness gindom.py / gen_gin.py / refmodel.py',
                'the store is read through gin.config._CONFIG (observation only)']
ASSUMPTIONS = ['inspect signatures arrive as data', 'identifiers ASCII']
EXPLANATION = ('Lean theorems about State.bind / parseKey (accepted implies registered+configurable; rejected leaves '
               'the state unchanged; every path goes through parseKey) + differential run + an independent Python '
               'reference of the validity rule evaluated on the implementation.')


def gen_case(rng):
  regs = G.gen_registry(rng, rng.randint(2, 3), w_posonly=0.25)
  for r in regs:   # C11 only binds: a pass-through decorator under gin must not widen what is bindable
    if r['_kind'] == 'fn' and rng.random() < 0.3:
      r['_decorated'] = rng.choice([1, 1, 2, 3])
    if r['deny'] and rng.random() < 0.3:
      r['_deny_iter'] = True     # the list arrives as a one-shot iterator: refused, like any non-list
      r['listTypesOk'] = False
    if r['_kind'] in ('init', 'new') and rng.random() < 0.4:
      r['_mixin'] = True   # a base class defines the *other* constructor with *args/**kwargs: it is not the one that counts
  scopes_early = [[], ['a']]
  ops = list(regs)
  if rng.random() < 0.35:
    # registrations refused *after* their signature was looked at (a list naming a non-parameter), right before the
    # real ones: nothing of them may linger (their function objects are gone by then)
    doomed = []
    for j in range(rng.randint(1, 3)):
      d = G.gen_late_register(rng, 80 + j)
      d['sig'] = {'pos': [['alpha', None], ['beta', {'v': 1}]][:rng.randint(1, 2)], 'kwonly': [], 'varargs': False,
                  'varkw': rng.random() < 0.3}
      if rng.random() < 0.5:
        d.update(allow=['nope'], deny=[])
      else:
        d.update(allow=[], deny=['nope'])
      if d['sig']['varkw']:
        d.update(allow=['alpha'], deny=['alpha'])
      doomed.append(d)
    ops = doomed + ops
  bindable = list(regs)
  if rng.random() < 0.35:
    mop, cop = G.gen_class_with_method(rng, len(regs), module=rng.choice(['m', 'k']))
    if rng.random() < 0.4 and not cop.get('_inherited'):
      # the method is bound under its bare name while it is still a free-standing function; once its class is
      # registered the bare name is gone, whatever was resolved before
      import copy
      cop['_split'] = True
      mop['_split_class'] = copy.deepcopy(cop)
      early = dict(mop, _selector=mop['module'] + '.' + mop['name'])
      ops.append(mop)
      for _ in range(rng.randint(1, 3)):
        ops.append(G.gen_bind_attempt(rng, [early], scopes_early))
      ops.append(cop)
      for _ in range(rng.randint(1, 2)):   # the spellings without the class are no names of anything any more
        ops.append(G.gen_bind_attempt(rng, [early], scopes_early))
        ops.append({'op': 'config'})
    else:
      ops += [mop, cop]
    bindable.append(mop)
  scopes = [[], ['a'], ['a', 'b'], ['c']]
  n = rng.randint(6, 14)
  for _ in range(n):
    ops.append(G.gen_bind_attempt(rng, bindable, scopes))
    ops.append({'op': 'config'})
  if rng.random() < 0.5:
    earlier = []
    for _ in range(rng.randint(1, 3)):
      h = G.gen_hook(rng, bindable, scopes, w_raise=0.05, earlier=earlier)
      earlier += G.hook_keyspecs(h, bindable)
      ops.append(h)
    ops.append({'op': 'finalize'})
    ops.append({'op': 'config'})
    ops.append({'op': 'locked'})
  return {'dom': 'gin', 'ops': ops}


def gen_cases(rng, tier, boost=1):
  yield from PARTIAL_CASES
  yield from POSONLY_CASES
  yield from INIT_CASES
  yield from SKIP_CASES
  n = (800 if tier == 'quick' else 20000) * boost
  for _ in range(n):
    yield gen_case(rng)
  # with dynamic registration: files of the C19 generator over objects that were registered from Python with an
  # allow or deny list — the lists stay in force whatever the files configure first (e.g. a method of the class,
  # which registers the class again), through every spelling, in blocks of included files as well
  from props import c19
  want, seen = (120 if tier == 'quick' else 4000) * boost, 0
  for case in c19.gen_cases(rng, 'thorough', boost):
    if case.get('_prereg_lists'):
      yield case
      seen += 1
      if seen >= want:
        break


def oracle(case, impl):
  if case.get('_kind') == 'skip_named':
    f = impl['facts']
    if ('error' in f or f.get('rejected') != 'ValueError' or not f.get('store_unchanged')
        or f.get('received') != ['big', 0]):
      what = {'seed': 'a parameter outside its allowlist / inside its denylist', 'no_such': 'a parameter it does not have'}
      return (f'config text binding {what[case["param"]]} of a registered configurable, parsed with skip_unknown given as a '
              f'{case["container"]} that names it ({case["form"]}, {case["spelling"]} selector, {case["api"]}, '
              f'{case["probe"]} registered with lists: {case["lists"]}) must raise, leave the store as it was and inject '
              f'nothing: {f}')
    return None
  if case.get('_kind') == 'init_lists':
    f = impl['facts']
    # (a binding on the class itself reaches the constructor as a caller's value and so wins over one on `Cls.__init__`)
    want = ['first' if case['first'] == 'class' else 'through init', 'original']
    if 'error' in f or f.get('excluded') != 'ValueError' or not f.get('store_unchanged') or f.get('instance') != want:
      return (f'a class registered with a {case["lists"]} list (through {case.get("via", "register")}), its constructor named as '
              f'`Cls.{case.get("ctor", "__init__")}` under dynamic registration (first statement: {case["first"]}): {f}')
    return None
  if case.get('_kind') == 'posonly':
    f = impl['facts']
    what = f'a positional-only parameter of a {case["shape"]} ({"with" if case["varkw"] else "without"} **kwargs), bound through {case["path"]}'
    if 'error' in f:
      return f'{what}: {f["error"]}'
    if case['varkw']:
      # the name is acceptable: it lands in **kwargs; the positional-only parameter keeps its default
      want = [1, 5, [['a', 10]]]
      if f.get('posonly') != 'accepted' or f.get('result') != want or f.get('replay') != want:
        return f'{what}: the name lands in **kwargs, expected {want} on the call and on the replay: {f}'
      return None
    if f.get('posonly') != 'ValueError' or not f.get('store_unchanged'):
      return (f'{what}: the signature cannot accept it by keyword, yet the binding was {f.get("posonly")} '
              f'(store unchanged: {f.get("store_unchanged")})')
    if f.get('result') != [1, 5, []] or f.get('replay') != [1, 5, []] or f.get('operative_lists_a'):
      return f'{what}: the call / the replay of the operative configuration must give [1, 5, []] and not list `a`: {f}'
    return None
  if case.get('_kind') == 'partial':
    f = impl['facts']
    want_consumed = 'ValueError' if case['by'] == 'positional' else 'accepted'
    if 'error' in f:
      return f'partial registered as a configurable ({case}): {f["error"]}'
    if case['by'] == 'positional' and (f.get('consumed') != want_consumed or not f.get('store_unchanged')):
      return (f'a parameter consumed positionally by a functools.partial was offered for binding through {case["path"]}: '
              f'{f.get("consumed")}, store unchanged: {f.get("store_unchanged")}')
    if case['by'] == 'positional' and f.get('result') != 2 * 3 + 5:
      return f'partial registered as a configurable ({case["path"]}): double(x=3) with offset bound to 5 returned {f.get("result")}'
    return None
  if _dyn(case):
    from props import c19
    return c19.oracle(case, impl)
  return refmodel.check_history(case, impl, {'bind', 'config', 'finalize', 'register'})


def nontrivial(case, impl):
  if case.get('_kind') in TABLE_KINDS:
    return True
  if _dyn(case):
    return impl.get('err') == 'ValueError' or bool(impl.get('bindings'))
  seen_ok = False
  for op, res in zip(case['ops'], impl['out']):
    if op['op'] == 'bind':
      if 'ok' in res:
        seen_ok = True
      elif seen_ok:
        return True
  return False


def shrink(case):
  if case.get('_kind') in TABLE_KINDS:
    return
  if _dyn(case):
    from props import c19
    yield from c19.shrink(case)
    return
  ops = case['ops']
  for k in range(len(ops) - 1, -1, -1):
    if ops[k]['op'] == 'register':
      continue
    yield {'dom': 'gin', 'ops': ops[:k] + ops[k + 1:]}


def classify(case, impl, model, why_oracle, why_model, findings):
  return None
