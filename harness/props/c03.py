"""C03 — statements are recovered exactly, whatever the layout of the config text."""
import parsedom
from props.c02 import gen_lit, trivia

ID = 'C03'
DOMAIN = 'parse'
PROPS_FILES = ['Gin/Props/C03.lean', 'Gin/Props/C03b.lean', 'Gin/Props/C03c.lean', 'Gin/Props/C03d.lean', 'Gin/Props/C03e.lean']
ANCHOR_FILES = ['config_parser.py', 'config.py']
RULE = ('1-10 statements (bindings with scopes and dotted selectors, macro definitions, the four import forms with aliases, '
        'includes, references and macros as values) rendered in two independently drawn layouts: comment placement, blank '
        'lines, backslash continuations before and after "=", spacing, flat vs block form with random indentation width '
        '(spaces or a tab), comments and blank lines between block members, CRLF line ends, form feeds, trailing newline or '
        'not; string values spelled per layout (triple-quoted over several physical lines some of which begin with "#", '
        'escaped on one line, adjacent pieces, carried over line ends with backslashes), bare or inside a container; '
        'names that spell a keyword (include, import, from) used as macro, selector and scope; plus a '
        'malformed-selector stream (inner whitespace, empty components, misplaced separators, continuation '
        'inside a name, one defect at any component of a 1-4 deep scope in bindings, macros, block headers, references). Oracle: both layouts yield the same bindings/imports/includes; malformed names are rejected. '
        'non-trivial = at least one block or continuation in one layout, or a malformed selector; distinct = distinct texts')
TRUSTED_BASE = ['Lean 4.33 kernel', 'axioms ⊆ {propext, Classical.choice, Quot.sound}', 'JSON glue (Gin/Drv/ParseDom)',
                'harness parsedom.py (tokenize and per-token literal_eval are CPython\'s)']
ASSUMPTIONS = ['layouts respect Python\'s own indentation rules (an indented line right after a block at member indentation is '
               'a member; a dedent to a level never opened is a tokenizer error): those are different texts, not layouts',
               'identifiers ASCII']
EXPLANATION = ('Lean theorems about the statement parser mirror (selector well-formedness, end-of-statement check, key '
               'splitting) and the value-level completeness theorem of C02 + differential run of the mirror on Python\'s '
               'tokens against config_parser.ConfigParser for every layout + layout-pair oracle.')

# names that spell a keyword are names like any other when '=' / ':' / '.' follows
SELS = ['f', 'm.f', 'pkg.mod.Cls', 'a_b.c1', 'include', 'from', 'import', 'include.f']
SCOPES = ['', 'a', 'a/b', 'train/eval_2', 'a/b/c_3/d', 'include', 'from/import']
ARGS = ['x', 'lr', 'num_layers']
MODULES = ['os', 'os.path', 'pkg.sub.mod', 'a']


# physical lines inside a string literal are part of the value whatever they look like: a line that begins with '#'
# (after blanks or not) is a comment only between tokens
STRING_LINES = ['usage:', '# not a comment', '  # nor is this', '#', '\t# after a tab', 'done', '', 'x = 1  # no comment either',
                '#!/bin/sh', '    #', '# a.b = 2', 'include # x']


WRAPS = [('', '')] * 6 + [('[', ']'), ('[1, ', ', 2]'), ('(', ',)'), ('{1: ', '}')]


def gen_string_spec(rng):
  """A string value whose spelling is drawn per layout (see `spell_value`): ('ml', lines) is the lines joined by
  newlines, ('cont', parts) the parts joined by nothing."""
  if rng.random() < 0.6:
    lines = [rng.choice(STRING_LINES) for _ in range(rng.randint(2, 4))]
    if not any(ln.lstrip().startswith('#') for ln in lines[1:]):
      lines[rng.randint(1, len(lines) - 1)] = rng.choice(['# not a comment', '  # nor is this', '#'])
    return ('ml', lines, rng.choice(WRAPS))
  parts = [rng.choice(['p ', 'usage: ', '', 'k=1 '])] + [rng.choice(['# q', '  # r ', '#', 'tail', '\t#t'])
                                                        for _ in range(rng.randint(1, 3))]
  return ('cont', parts, rng.choice(WRAPS))


def spell_value(rng, v):
  """The text of a value in one layout."""
  if isinstance(v, str):
    return v
  kind, pieces, wrapped = v
  if kind == 'ml':
    r = rng.random()
    if r < 0.55:      # a triple-quoted literal over several physical lines
      q = rng.choice(["'''", '"""'])
      s = q + '\n'.join(pieces) + q
    elif r < 0.8:     # one physical line, the line ends written as escapes
      q = rng.choice(["'", '"', "'''"])
      s = q + '\\n'.join(pieces) + q
    else:             # adjacent pieces, one per line of the value
      s = ' '.join("'" + ln + ("\\n'" if i < len(pieces) - 1 else "'") for i, ln in enumerate(pieces))
  else:
    r = rng.random()
    if r < 0.6:       # the literal carried over line ends with backslashes: the line end is not part of the value
      q = rng.choice(["'", '"', "'''"])
      s = q + '\\\n'.join(pieces) + q
    else:
      s = "'" + ''.join(pieces) + "'"
  return wrapped[0] + s + wrapped[1]


def gen_value_text(rng):
  r = rng.random()
  if r < 0.12:
    return gen_string_spec(rng)
  if r < 0.6:
    return gen_lit(rng, 2)
  if r < 0.8:
    return '@' + rng.choice(['', 'a/', 'a/b.c/']) + rng.choice(SELS) + rng.choice(['', '()', '( )'])
  return '%' + rng.choice(['m1', 'a/b', 'pkg.CONST', 'gin.REQUIRED'])


def gen_specs(rng):
  specs = []
  for _ in range(rng.randint(1, 10)):
    r = rng.random()
    if r < 0.5:
      specs.append(('bind', rng.choice(SCOPES), rng.choice(SELS), rng.choice(ARGS), gen_value_text(rng)))
    elif r < 0.62:
      specs.append(('macro', rng.choice(['m1', 'batch_size', 'a/b', 'include', 'import', 'from', 'a/include', 'a/b/c/m2']), gen_value_text(rng)))
    elif r < 0.78:
      mod = rng.choice(MODULES)
      form = rng.choice(['import', 'import_as', 'from', 'from_as'])
      if form.startswith('from') and '.' not in mod:
        form = 'import'
      # an alias may repeat a component of the module name: it is an alias all the same
      specs.append(('import', form, mod, rng.choice(['al', 'np2', mod.split('.')[0], mod.split('.')[-1]])))
    elif r < 0.86:
      specs.append(('include', rng.choice(["'a.gin'", '"dir/b.gin"', "'x' 'y.gin'"])))
    else:
      scope, sel = rng.choice(SCOPES), rng.choice(SELS)
      members = [(a, gen_value_text(rng)) for a in rng.sample(ARGS, rng.randint(1, 3))]
      specs.append(('group', scope, sel, members))
  return specs


def render(rng, specs):
  """One layout of the statements; returns the text."""
  nl = '\r\n' if rng.random() < 0.1 else '\n'
  out = []

  def between():
    r = rng.random()
    if r < 0.25:
      out.append('')
    elif r < 0.4:
      out.append('# comment ' + rng.choice(['', "with 'quote", 'a.b = 1']))
    elif r < 0.45:
      out.append('   ')
    elif r < 0.48:
      out.append('\x0c')

  def eq():
    r = rng.random()
    if r < 0.5:
      return ' = '
    if r < 0.65:
      return '='
    if r < 0.8:
      return ' = \\' + nl + rng.choice(['    ', ' ', ''])
    if r < 0.9:
      return ' \\' + nl + '  = '
    return '  =\t'

  def tail():
    return rng.choice(['', '', ' ', '  # trailing comment', ' # c = [1'])
  for sp in specs:
    between()
    if sp[0] == 'bind':
      key = (sp[1] + '/' if sp[1] else '') + sp[2] + '.' + sp[3]
      out.append(key + eq() + spell_value(rng, sp[4]) + tail())
    elif sp[0] == 'macro':
      out.append(sp[1] + eq() + spell_value(rng, sp[2]) + tail())
    elif sp[0] == 'import':
      form, mod, alias = sp[1], sp[2], sp[3]
      sp1 = rng.choice([' ', '  ', ' \\' + nl + ' '])
      if form == 'import':
        out.append('import' + sp1 + mod + tail())
      elif form == 'import_as':
        out.append('import' + sp1 + mod + ' as ' + alias + tail())
      else:
        base, _, name = mod.rpartition('.')
        s = 'from' + sp1 + base + ' import ' + name
        if form == 'from_as':
          s += ' as ' + alias
        out.append(s + tail())
    elif sp[0] == 'include':
      out.append('include' + rng.choice([' ', '  ']) + sp[1] + tail())
    else:
      scope, sel, members = sp[1], sp[2], sp[3]
      key = (scope + '/' if scope else '') + sel
      if rng.random() < 0.5:   # flat form
        for a, v in members:
          out.append(key + '.' + a + eq() + spell_value(rng, v) + tail())
          between()
      else:
        ind = rng.choice(['  ', '    ', ' ', '\t', '        '])
        out.append(key + ':' + rng.choice(['', ' ', '  # header comment']))
        if rng.random() < 0.3:
          out.append(rng.choice(['', '# between header and members', ind + '# indented comment']))
        for i, (a, v) in enumerate(members):
          out.append(ind + a + rng.choice([' = ', '=', ' =  ']) + spell_value(rng, v) + tail())
          if i < len(members) - 1 and rng.random() < 0.3:
            out.append(rng.choice(['', ind + '# member comment', '# flush comment']))
  text = nl.join(out)
  if rng.random() < 0.8:
    text += nl
  return text


BAD_SELECTORS = ['a /b.x = 1', 'a/ b.x = 1', 'a/b .x = 1', 'a/b. x = 1', 'a//b.x = 1', '/a.x = 1', 'a/.x = 1', 'a..b = 1',
                 '.a.x = 1', 'a.b/c.x = 1', 'a/b/ = 1', 'a\\\n/b.x = 1', 'a/b\\\n.x = 1', 'a.\\\nb = 1', '1a.x = 1',
                 'a-b.x = 1', 'x = @a /f', 'x = @a/ f()', 'x = @a//f', 'x = %a /b', 'x = @f ()x', 'import a /b',
                 'import a. b', 'from a import b.c', 'import a as b.c', 'from a. b import c', 'from a/b import c', 'from a/b import c as d', 'import a/b.c', 'import a as b/c', 'a.b:\n x = 1\n  y = 2\n']


def gen_bad_selector(rng):
  """A scoped name of depth 1-4 with one defect in one component (any position), in one of the places a
  scoped name may stand."""
  depth = rng.randint(1, 4)
  comps = [rng.choice(['a', 'b_1', 'train', 'Eval2']) for _ in range(depth)]
  i = rng.randrange(depth)
  c = comps[i]
  place = rng.choice(['bind', 'macro', 'block', 'ref', 'mref', 'eref'])
  # a scope of a reference or macro may be a dotted name (the parser allows periods there); a scope of a
  # binding key, macro definition or block header may not
  dotted = [c + '.' + c, 'dotted.' + c] if place in ('bind', 'macro', 'block') else []
  comps[i] = rng.choice(dotted + dotted + ['', c + '-x', '1' + c, c + '.', '.' + c, c + ' ' + c])
  scope = '/'.join(comps)
  if place == 'bind':
    return scope + '/' + rng.choice(['f', 'm.f']) + '.x = 1'
  if place == 'macro':
    return scope + '/M = 1'
  if place == 'block':
    return scope + '/f:\n  x = 1'
  if place == 'ref':
    return 'f.x = @' + scope + '/g'
  if place == 'eref':
    return 'f.x = [1, @' + scope + '/g()]'
  return 'f.x = %' + scope + '/M'


def gen_broken_name(rng):
  """A backslash continuation inside a scoped name, the continuation line indented by a random amount - often by
  exactly the amount that makes the name end in the column where it would have ended on one line."""
  name = rng.choice(['s/target.a', 'a/b/m.f.x', 'train/eval_2/pkg.mod.Cls.lr', 's/helper', 'outer/inner/fn'])
  seps = [i + 1 for i, ch in enumerate(name) if ch in '/.' and i + 1 < len(name)]
  i = rng.choice(seps + [j - 1 for j in seps])     # break after or before a separator
  place = rng.choice(['key', 'ref', 'mref'])
  prefix = {'key': '', 'ref': 'f.x = @', 'mref': 'f.x = %'}[place]
  begin = len(prefix)
  k = begin + i if rng.random() < 0.6 else rng.randint(0, 14)
  text = prefix + name[:i] + '\\\n' + ' ' * k + name[i:]
  return text + (' = 1' if place == 'key' else '')


def gen_reused_name(rng):
  """A spelling that is fine where a value stands (a reference or macro may carry a dotted scope, a reference a
  '/'-scoped name) is used there first, then where it is not allowed: as a binding key, a macro definition, a block
  header or an import path. Returns (well-formed first statement, malformed second statement)."""
  if rng.random() < 0.7:
    sc = rng.choice(['a.b', 'pkg.consts', 'x/y.z', 'm.n/o', 'pkg.layers'])
    leaf = rng.choice(['f', 'RATE', 'Dense', 'mod.fn'])
    form = rng.choice(['bind', 'macro', 'block'])
    name = sc + '/' + leaf + ('.x' if form == 'bind' else '')
    second = {'bind': name + ' = 1', 'macro': name + ' = 0.1', 'block': name + ':\n  x = 1'}[form]
  else:
    name = rng.choice(['pkg/mod', 'a/b/c', 'pkg/sub.mod'])
    second = rng.choice(['import ' + name, 'from ' + name + ' import x', 'import ' + name + ' as y'])
  first = rng.choice(['ok.y = @' + name, 'ok.y = %' + name, 'ok.y = [1, @' + name + '()]', 'ok.y = {1: %' + name + '}'])
  return first, second


# block and flat layouts of the same statements through gin.parse_config itself, some of them naming a configurable
# nobody registered, parsed with skip_unknown: the layouts still mean the same - a finite table on the real code
SKIP_LAYOUT_CASES = [{'dom': 'parse', 'kind': 'skip_layouts', 'skip': sk, 'scope': sc, 'order': order, 'texts': ['', '']}
                     for sk in ('true', 'list', 'tuple') for sc in ('', 'a/') for order in ('unknown_first', 'unknown_between', 'unknown_last')]


def run_skip_layouts(case):
  import core
  out = []
  sc = case['scope']
  unk_block = f'{sc}nobody.here:\n  a = 1\n  b = 2\n'
  unk_flat = f'{sc}nobody.here.a = 1\n{sc}nobody.here.b = 2\n'
  # (two macro definitions among the known statements: a macro's name is no configurable, known or unknown)
  known1, known2 = f'{sc}sk.f.p = 2\n', 'sk.f.q = 3\nrate = 7\nsk.g.r = 4\nlow/rate = 8\n'
  known_block = f'{sc}sk.f:\n  p = 2\n'
  parts = {'unknown_first': lambda u: u + known1 + known2, 'unknown_between': lambda u: known1 + u + known2,
           'unknown_last': lambda u: known1 + known2 + u}[case['order']]
  texts = [parts(unk_block), parts(unk_flat), parts(unk_block).replace(known1, known_block)]
  skip = {'true': True, 'list': ['nobody.here'], 'tuple': ('nobody.here', 'zz.q')}[case['skip']]
  for text in texts:
    gin = core.fresh_gin()
    g = {'__name__': 'sk'}
    exec('def f(p=0, q=0):\n  return (p, q)\ndef g(r=0):\n  return r\n', g)  # pylint: disable=exec-used
    gin.configurable(g['f'])
    gin.configurable(g['g'])
    try:
      gin.parse_config(text, skip_unknown=skip)
      out.append(sorted((k, sorted(v.items())) for k, v in gin.config._CONFIG.items()))  # pylint: disable=protected-access
    except Exception as e:  # pylint: disable=broad-except
      out.append(f'{type(e).__name__}: {e}'[:200])
  return {'runs': [], 'tok_ok': [], 'facts': {'configs': [repr(o) for o in out], 'texts': texts}}


def gen_cases(rng, tier, boost=1):
  yield from SKIP_LAYOUT_CASES
  n = (700 if tier == 'quick' else 30000) * boost
  for k in range(n):
    if k % 6 == 5 and rng.random() < 0.2:
      first, second = gen_reused_name(rng)
      yield {'dom': 'parse', 'kind': 'bad', 'texts': [first + '\n' + second + '\n'], 'nprefix': 1}
    elif k % 6 == 5:
      r3 = rng.random()
      bad = rng.choice(BAD_SELECTORS) if r3 < 0.4 else (gen_bad_selector(rng) if r3 < 0.75 else gen_broken_name(rng))
      prefix = 'ok.y = 2\n' if rng.random() < 0.5 else ''
      yield {'dom': 'parse', 'kind': 'bad', 'texts': [prefix + bad + '\n'], 'nprefix': 1 if prefix else 0}
    else:
      specs = gen_specs(rng)
      yield {'dom': 'parse', 'kind': 'pair', 'texts': [render(rng, specs), render(rng, specs)]}


def run_impl(case):
  if case['kind'] == 'skip_layouts':
    return run_skip_layouts(case)
  runs = [parsedom.impl_statements(t) for t in case['texts']]
  # a generated string piece that Python's own tokenizer rejects is not a layout of anything
  tok_ok = [all(t['k'] != 'TOKERR' for t in parsedom.tokens_of(t_)) for t_ in case['texts']]
  return {'runs': runs, 'tok_ok': tok_ok}


def to_driver(case, impl):
  # both layouts go through the driver in one request list: the core sends one request per case,
  # so the two token streams are packed and unpacked by `compare`
  return {'dom': 'parse2', 'runs': [parsedom.to_driver(t) for t in case['texts']]}


def compare(case, impl, model):
  if case['kind'] == 'skip_layouts':
    return None
  if 'runs' not in model:
    return f'driver error: {model}'
  for i, (a, b) in enumerate(zip(impl['runs'], model['runs'])):
    why = parsedom.compare(a, b)
    if why:
      return f'layout {i}: {why}'
  return None


def _essence(stmts):
  out = []
  for s in stmts:
    if s[0] == 'block':
      continue
    out.append(s[:-1])
  return out


def oracle(case, impl):
  if case['kind'] == 'skip_layouts':
    f = impl['facts']
    if (len(set(f['configs'])) != 1 or "'p', 2" not in f['configs'][0] or 'nobody' in f['configs'][0]
        or "(('rate', 'gin.macro'), [('value', 7)])" not in f['configs'][0]
        or "(('low/rate', 'gin.macro'), [('value', 8)])" not in f['configs'][0]):
      return (f'three layouts of the same statements (an unknown configurable as a block or flat, skip_unknown={case["skip"]}) '
              f'do not give one configuration holding the known bindings and the two macro definitions only: {f["configs"]}\n{f["texts"]}')
    return None
  runs = impl['runs']
  if case['kind'] == 'bad':
    r = runs[0]
    if r['err'] is None:
      return f'malformed scoped name accepted: {case["texts"][0]!r} -> {r["stmts"]}'
    if not r['err'].startswith('syntax'):
      return f'malformed scoped name rejected with {r["err"]}'
    if len(r['stmts']) != case['nprefix']:
      return f'statements before the malformed one: {r["stmts"]}'
    return None
  if not all(impl.get('tok_ok', [True])):
    return None
  for r in runs:
    if r['err'] is not None:
      return f'a well-formed layout was rejected ({r["err"]}): {case["texts"][runs.index(r)]!r}'
  if _essence(runs[0]['stmts']) != _essence(runs[1]['stmts']):
    return f'two layouts of the same statements differ: {_essence(runs[0]["stmts"])} vs {_essence(runs[1]["stmts"])}'
  return None


def nontrivial(case, impl):
  return case['kind'] == 'bad' or any(':\n' in t or ':\r\n' in t or '\\\n' in t or '\\\r\n' in t for t in case['texts'])


def tally(stats, case, impl):
  if case['kind'] == 'skip_layouts':
    stats['kind:skip_layouts'] = stats.get('kind:skip_layouts', 0) + 1
    return
  stats['kind:' + case['kind']] = stats.get('kind:' + case['kind'], 0) + 1
  for r in impl['runs']:
    for s in r['stmts']:
      stats['stmt:' + s[0]] = stats.get('stmt:' + s[0], 0) + 1
    k = 'outcome:' + ('ok' if r['err'] is None else r['err'])
    stats[k] = stats.get(k, 0) + 1


def classify(case, impl, model, why_oracle, why_model, findings):
  return None
