"""C08 — names resolve by unique dotted suffix (SelectorMap histories)."""
import itertools
import core
import gen_gin as G
import gindom
import refmodel

ID = 'C08'
DOMAIN = 'selmap+gin'
PROPS_FILES = ['Gin/Props/C08.lean', 'Gin/Props/C08b.lean', 'Gin/Props/C08c.lean']
ANCHOR_FILES = ['selector_map.py', 'config.py']
RULE = ('histories of 20-60 SelectorMap operations (set/pop/copy/clear + queries) on up to 3 live maps, '
        'names over a 3-letter component alphabet with 1-4 components; non-trivial = at least 2 live names '
        'share a component suffix at some query and at least one pop or copy precedes a query; '
        'distinct = distinct canonical op list; one parameter addressed through several spellings and APIs; the names '
        'config_str() reports for functions, classes and registered methods whose class and method names recur in '
        'other modules (structure compared with emitDoc of the mirror, every reported name resolved back), references written '
        'with a partial dotted name that a later registration makes ambiguous or takes over as its complete name (the printed '
        'form of every stored reference resolved back to its target)')
TRUSTED_BASE = ['Lean 4.33 kernel', 'axioms ⊆ {propext, Classical.choice, Quot.sound}',
                'JSON glue of Main.lean / Gin/Drv (str.split, join, ASCII identifier regex)',
                'Python harness harness/props/c08.py', "CPython dict semantics (copy(), setdefault) are exercised, not modelled"]
ASSUMPTIONS = ['identifiers are ASCII; Python \\w beyond ASCII and the trailing-newline quirk of `$` in SELECTOR_RE are outside the model',
               'DFS order of matching_selectors is not an observable (compared as a set)']
EXPLANATION = ('Lean theorems about the trie mirror (Gin/SelectorMap.lean) + differential run of the same '
               'operation histories on gin.selector_map.SelectorMap and on the mirror, plus an independent '
               'naive set-of-names oracle evaluated on what the implementation returned.')

ALPHA = ['a', 'b', 'c']
BAD_NAMES = ['', 'a.', '.a', '1a', 'a b', 'a-b', 'a..b', 'a.$', '$', 'a.b\n', 'a\n', '\na', 'a\n.b']
BAD_QUERIES = ['', '.a', 'a.', 'a..b', '$', 'a.$', '$.a', '$.b', '$.c.c', 'zz', 'a.zz']


def rand_name(rng):
  n = rng.choice([1, 1, 2, 2, 2, 3, 3, 4])
  return '.'.join(rng.choice(ALPHA) for _ in range(n))


def gen_case(rng, nops):
  ops = [['new', 0]]
  live = {0: []}
  val = 0
  for _ in range(nops):
    i = rng.choice(list(live))
    names = live[i]
    r = rng.random()
    if r < 0.30:
      name = rand_name(rng) if rng.random() < 0.93 else rng.choice(BAD_NAMES)
      if names and rng.random() < 0.25:  # extend / shorten an existing name
        base = rng.choice(names)
        name = (rng.choice(ALPHA) + '.' + base) if rng.random() < 0.5 else base.split('.', 1)[-1]
      val += 1
      ops.append(['set', i, name, val])
      if name not in names and all(name != b for b in BAD_NAMES):
        names.append(name)
    elif r < 0.42 and names:
      name = rng.choice(names) if rng.random() < 0.85 else rand_name(rng)
      ops.append(['pop', i, name])
      if name in names:
        names.remove(name)
    elif r < 0.47:
      j = rng.choice([0, 1, 2])
      if j != i:
        ops.append(['copy', i, j])
        live[j] = list(names)
    elif r < 0.49:
      ops.append(['clear', i])
      live[i] = []
    else:
      kind = rng.choice(['match', 'match', 'getm', 'getm', 'getall', 'min', 'min', 'min', 'items', 'contains', 'get', 'len'])
      if kind in ('match', 'getm', 'getall'):
        q = rng.random()
        if q < 0.45 and names:
          full = rng.choice(names).split('.')
          k = rng.randint(1, len(full))
          arg = '.'.join(full[-k:])
        elif q < 0.9:
          arg = rand_name(rng)
        else:
          arg = rng.choice(BAD_QUERIES)
        ops.append([kind, i, arg])
      elif kind in ('min', 'contains', 'get'):
        arg = rng.choice(names) if names and rng.random() < 0.85 else rand_name(rng)
        ops.append([kind, i, arg])
      else:
        ops.append([kind, i])
  # always end by observing every live map completely
  for i in live:
    ops.append(['items', i])
    for n in live[i]:
      ops.append(['min', i, n])
  return {'dom': 'selmap', 'ops': ops}


def unambiguous_spellings(sel, names):
  parts = sel.split('.')
  out = []
  for k in range(1, len(parts) + 1):
    sp = '.'.join(parts[-k:])
    if refmodel.suffix_matches(names, sp) == [sel]:
      out.append(sp)
  return out


def gen_api_case(rng):
  """One parameter addressed through two or more spellings and APIs (bind / query / get_bindings /
  reference / scoped lookup / finalize hooks)."""
  regs = G.gen_registry(rng, rng.randint(3, 5))
  names = [r['_selector'] for r in regs] + ['gin.macro', 'gin.constant', 'gin.singleton']
  ops = list(regs)
  scopes = [[], ['a'], ['a', 'b']]
  for _ in range(rng.randint(2, 5)):
    reg = rng.choice(regs)
    sel = reg['_selector']
    sps = unambiguous_spellings(sel, names)
    cls = [n for n, c in G.param_classes(reg).items() if c == 'valid']
    if not cls:
      continue
    arg = rng.choice(cls)
    scope = rng.choice(scopes)
    form = rng.choice(['tuple', 'list', 'str', 'text', 'block'])
    ops.append({'op': 'bind', 'scope': '/'.join(scope), 'sel': rng.choice(sps), 'arg': arg, 'val': G.gen_value(rng, 1),
                '_form': form, 'block': form == 'block'})
    ops.append({'op': 'query', 'scope': '/'.join(scope), 'sel': rng.choice(sps), 'arg': arg})
    ops.append({'op': 'getb', 'sel': sel, '_spelling': rng.choice(sps), 'scope': scope, 'inherit': rng.random() < 0.5})
    if rng.random() < 0.5:  # overwrite through another spelling and API
      form = rng.choice(['tuple', 'str', 'text'])
      ops.append({'op': 'bind', 'scope': '/'.join(scope), 'sel': rng.choice(sps), 'arg': arg, 'val': G.gen_value(rng, 0),
                  '_form': form, 'block': False})
      ops.append({'op': 'query', 'scope': '/'.join(scope), 'sel': rng.choice(sps), 'arg': arg})
    if rng.random() < 0.4:  # an ambiguous or unknown spelling must not be accepted
      bad = rng.choice([sel.split('.')[-1], 'zz.' + sel])
      ops.append({'op': 'bind', 'scope': '', 'sel': bad, 'arg': arg, 'val': 1, '_form': 'tuple', 'block': False})
      if not bad.startswith('zz.') and rng.random() < 0.6:
        # the same (known, possibly ambiguous) spelling in config text parsed with skip_unknown: known names are
        # never skipped, so it is judged exactly as above
        form = rng.choice(['text', 'block'])
        ops.append({'op': 'bind', 'scope': '', 'sel': bad, 'arg': arg, 'val': 2, '_form': form, 'block': form == 'block',
                    '_skip': rng.choice([True, [bad], (bad, 'zz.q')])})
    if rng.random() < 0.5:  # get_bindings / get_configurable through a spelling: unique, ambiguous or unknown
      parts = sel.split('.')
      q = rng.choice(['.'.join(parts[-k:]) for k in range(1, len(parts) + 1)] + ['zz.' + sel])
      ops.append({'op': 'getbq', 'q': q, 'scope': rng.choice(scopes), 'inherit': rng.random() < 0.5,
                  '_also_get_configurable': True})
    ops.append({'op': 'config'})
  if rng.random() < 0.4:
    # a spelling that is unique while it is first used, then made ambiguous by a later registration: every API has to
    # ask the registry as it is now (bind / query outside parse_config as well as config text)
    reg = rng.choice(regs)
    parts = reg['_selector'].split('.')
    k = rng.randint(1, len(parts))
    sp = '.'.join(parts[-k:])
    cls = [n for n, c in G.param_classes(reg).items() if c == 'valid']
    if cls and sp in unambiguous_spellings(reg['_selector'], names):
      arg = rng.choice(cls)
      for form in rng.sample(['tuple', 'str', 'text'], 2):
        ops.append({'op': 'bind', 'scope': '', 'sel': sp, 'arg': arg, 'val': rng.randint(1, 9), '_form': form, 'block': False})
      ops.append({'op': 'query', 'scope': '', 'sel': sp, 'arg': arg})
      late = G.gen_late_register(rng, 90)
      lmod = '.'.join(['late'] + parts[-k:-1])
      late.update(name=parts[-1], module=lmod, _pymodule=lmod, _selector=lmod + '.' + parts[-1], sig=reg['sig'],
                  _kind=reg['_kind'] if reg['_kind'] == 'fn' else 'fn')
      if late['_kind'] == 'fn' and reg['_kind'] != 'fn':
        late['sig'] = {'pos': [[arg, {'v': 0}]], 'kwonly': [], 'varargs': False, 'varkw': False}
      ops.append(late)
      names.append(late['_selector'])
      for form in ('tuple', 'str', 'text'):
        ops.append({'op': 'bind', 'scope': '', 'sel': sp, 'arg': arg, 'val': rng.randint(10, 19), '_form': form, 'block': False})
        ops.append({'op': 'query', 'scope': '', 'sel': sp, 'arg': arg})
      ops.append({'op': 'getbq', 'q': sp, 'scope': [], 'inherit': True, '_also_get_configurable': True})
      ops.append({'op': 'config'})
  # references under partial spellings: a macro addressed as @name/macro(), a configurable as @suffix
  if rng.random() < 0.6:
    mname = rng.choice(['batch', 'lr', 'a/b'])
    ops.append({'op': 'bind', 'scope': mname, 'sel': 'gin.macro', 'arg': 'value', 'val': rng.randint(1, 9),
                '_form': 'macro_text', 'block': False})
    consumer = rng.choice(regs)
    cls = [n for n, c in G.param_classes(consumer).items() if c == 'valid']
    if cls:
      ref = {'macro': mname, '_text': '@' + mname + '/' + rng.choice(['macro', 'gin.macro']) + '()'}
      ops.append({'op': 'bind', 'scope': '', 'sel': consumer['_selector'], 'arg': rng.choice(cls), 'val': ref,
                  '_form': 'text', 'block': False})
      tgt = rng.choice(regs)
      ref2 = {'ref': [rng.choice([[], ['a'], ['a', 'b'], ['a', 'b', 'c']]), tgt['_selector'], rng.random() < 0.3],
              '_spelled': rng.choice(unambiguous_spellings(tgt['_selector'], names))}
      ops.append({'op': 'bind', 'scope': 'a', 'sel': consumer['_selector'], 'arg': rng.choice(cls), 'val': ref2,
                  '_form': 'text', 'block': False})
      if rng.random() < 0.6:   # every name is known: parsing with skip_unknown changes nothing, however many scopes
        ops[-1]['_skip'] = rng.choice([True, ['zz.q'], (ref2['_spelled'],)])
      ops.append({'op': 'config'})
  # constants are addressed by dotted suffix too, through %name and through query_parameter
  if rng.random() < 0.5:
    cnames = rng.sample(['pkg.optim.LR', 'pkg.sched.LR', 'other.WD', 'WD2', 'pkg.optim.deep.EPS'], rng.randint(1, 4))
    for i, cn in enumerate(cnames):
      ops.append({'op': 'constant', 'name': cn, 'nameValid': True, 'val': {'o': 300 + i}})
    for _ in range(rng.randint(2, 5)):
      cn = rng.choice(cnames)
      parts = cn.split('.')
      ops.append({'op': 'macrolookup', 'name': '.'.join(parts[-rng.randint(1, len(parts)):])})
  # finalize hooks: the same or different parameters under different spellings
  if rng.random() < 0.7:
    reg = rng.choice(regs)
    sps = unambiguous_spellings(reg['_selector'], names)
    cls = [n for n, c in G.param_classes(reg).items() if c == 'valid']
    if cls:
      a1 = rng.choice(cls)
      a2 = a1 if rng.random() < 0.6 else rng.choice(cls)
      sc = '/'.join(rng.choice(scopes))
      same = rng.randint(0, 9) if rng.random() < 0.5 else None   # agreeing on the value is a conflict all the same
      for a in (a1, a2):
        ks = {'scope': sc, 'sel': rng.choice(sps), 'arg': a, '_form': rng.choice(['str', 'tuple'])}
        ops.append({'op': 'hook', 'ret': [[ks, same if same is not None else rng.randint(0, 9)]], 'raises': False})
  ops += [{'op': 'finalize'}, {'op': 'config'}, {'op': 'locked'}]
  return {'dom': 'gin', 'ops': ops}


def gen_reported_case(rng):
  """Names reported by config_str() for functions, classes and registered methods whose class and method names
  recur in other modules: every reported name has to resolve back to the entry it was printed for."""
  import copy
  regs = G.gen_registry(rng, rng.randint(2, 3))
  ops = list(regs)
  bindable = list(regs)
  mop, cop = G.gen_class_with_method(rng, 40, module=rng.choice(['m', 'k']))
  ops += [mop, cop]
  bindable.append(mop)
  r = rng.random()
  if r < 0.7:   # the same class and method names in another module: 'Class.method' alone is ambiguous
    om = 'k' if mop['module'] == 'm' else 'm'
    mop2, cop2 = copy.deepcopy(mop), copy.deepcopy(cop)
    mop2.update(module=om, obj=60, _selector=f"{om}.{cop['name']}.{mop['name']}")
    cop2.update(module=om, obj=61, methods=[f"{om}.{mop['name']}"], _method_ops=[mop2], _pymodule=om,
                _selector=f"{om}.{cop['name']}")
    ops += [mop2, cop2]
    bindable.append(mop2)
  if r > 0.4:   # an unrelated class with the same method name: 'Class.method' is enough for it
    mop3, cop3 = copy.deepcopy(mop), copy.deepcopy(cop)
    mop3.update(module='solo', obj=70, _selector=f"solo.Solo.{mop['name']}")
    cop3.update(name='Solo', module='solo', obj=71, methods=[f"solo.{mop['name']}"], _method_ops=[mop3], _pymodule='solo',
                _selector='solo.Solo')
    ops += [mop3, cop3]
    bindable.append(mop3)
  binds = []
  for reg in bindable:
    if reg.get('_api') != 'method' and rng.random() < 0.4:
      continue
    cls = [n for n, c in G.param_classes(reg).items() if c == 'valid']
    if cls:
      binds.append({'op': 'bind', 'scope': rng.choice(['', 'a', 'a/b']), 'sel': reg['_selector'], 'arg': rng.choice(cls),
                    'val': G.gen_value(rng, 0), '_form': 'tuple', 'block': False})
  # values that are references to entries whose class / function names recur: the name printed inside the value
  # has to resolve back as well
  classes = [o for o in ops if o.get('_method_ops')]
  for reg in regs:
    cls = [n for n, c in G.param_classes(reg).items() if c == 'valid']
    if cls and classes and rng.random() < 0.6:
      tgt = rng.choice(classes + [r2 for r2 in regs if r2 is not reg])
      binds.append({'op': 'bind', 'scope': rng.choice(['', 'a']), 'sel': reg['_selector'], 'arg': rng.choice(cls),
                    'val': {'ref': [rng.choice([[], ['s']]), tgt['_selector'], rng.random() < 0.3]},
                    '_form': rng.choice(['tuple', 'text']), 'block': False})
  # a reference written with a short name that is unique when it is written, and that a later registration makes
  # ambiguous: the text still has to name its target
  tail = []
  all_names = [o['_selector'] for o in ops if o['op'] == 'register']
  refbinds = [b for b in binds if isinstance(b['val'], dict) and 'ref' in b['val'] and b['_form'] == 'text']
  if refbinds and rng.random() < 0.5:
    b = rng.choice(refbinds)
    tsel = b['val']['ref'][1]
    bare = tsel.split('.')[-1]
    if refmodel.suffix_matches(all_names + ['gin.macro', 'gin.constant', 'gin.singleton'], bare) == [tsel]:
      b['val']['_spelled'] = bare
      late = G.gen_late_register(rng, 95)
      late.update(name=bare, module='lm2', _pymodule='lm2', _selector='lm2.' + bare)
      tail = [late]
  # a reference written with a partial dotted name (`@n.f` for `m.n.f`) whose spelling a later registration takes over
  # as ITS complete name (`f` of module `n`): "a name equal to a complete stored name resolves to exactly that entry",
  # so the spelling as written now names the newcomer, and the name printed for the reference has to be another one
  if rng.random() < 0.5:
    every = all_names + ['gin.macro', 'gin.constant', 'gin.singleton'] + [t['_selector'] for t in tail]
    cands = []
    for o in regs + classes:
      parts = o['_selector'].split('.')
      for k in range(2, len(parts)):
        sp = '.'.join(parts[-k:])
        if refmodel.suffix_matches(every, sp) == [o['_selector']]:
          cands.append((o, sp))
    if cands:
      tgt, sp = rng.choice(cands)
      for _ in range(rng.randint(1, 2)):
        reg = rng.choice(bindable)
        cls = [n for n, c in G.param_classes(reg).items() if c == 'valid']
        if not cls:
          continue
        ref = {'ref': [rng.choice([[], [], ['s'], ['s', 't']]), tgt['_selector'], rng.random() < 0.3], '_spelled': sp}
        r = rng.random()
        val = ref if r < 0.6 else ({'l': [rng.randint(0, 9), ref]} if r < 0.8 else {'t': [{'l': [ref, {'s': 'k'}]}]})
        binds.append({'op': 'bind', 'scope': rng.choice(['', 'a', 'a/b']), 'sel': reg['_selector'], 'arg': rng.choice(cls),
                      'val': val, '_form': 'text', 'block': False})
      newer = G.gen_late_register(rng, 96)
      lmod, _, lname = sp.rpartition('.')
      newer.update(name=lname, module=lmod, _pymodule=lmod, _selector=sp)
      tail = tail + [newer]
  return {'dom': 'gin', 'ops': ops + binds + tail + [{'op': 'cfgdoc'}], '_order2': binds + tail, '_regops': ops, '_width': [80, 4],
          '_kind': 'reported', '_imports': []}


def _case_refs(v):
  """The references of an encoded value, in order: [scopes, complete name of the target, evaluated]."""
  if isinstance(v, dict):
    if 'ref' in v:
      return [[list(v['ref'][0]), v['ref'][1], bool(v['ref'][2])]]
    return [r for k in ('l', 't') if k in v for x in v[k] for r in _case_refs(x)] + \
        [r for kv in v.get('d', []) for x in kv for r in _case_refs(x)]
  return []


def _printed_references(case):
  """Every reference held by the binding store after the whole history, as it is printed now: [scope, configurable,
  parameter, printed text, complete name of the referenced entry, complete name the library resolves the printed
  text to]."""
  s = gindom.Session()
  try:
    for op in case['ops'][:-1]:
      s.run_op(op)
    cfg = s.gin.config
    facts = []
    for (scope, sel), params in list(cfg._CONFIG.items()):  # pylint: disable=protected-access
      for p, v in params.items():
        for ref in cfg.iterate_references({0: {0: v}}):
          printed = repr(ref)
          try:
            back = cfg.parse_value(printed)
            back = back.configurable.selector if isinstance(back, cfg.ConfigurableReference) else f'not a reference: {back!r}'[:80]
          except Exception as e:  # pylint: disable=broad-except
            back = f'{type(e).__name__}: {e}'[:120]
          facts.append([scope, sel, p, printed, ref.configurable.selector, back])
    return facts
  finally:
    s.cleanup()


def gen_cases(rng, tier, boost=1):
  # names of several hundred components: a copy shares nothing with its original here either (and can be made at all)
  for depth in (300, 700, 1500):
    deep = '.'.join(['d%d' % (i % 7) for i in range(depth)])
    yield {'dom': 'selmap', 'ops': [['new', 0], ['set', 0, deep, 1], ['set', 0, 'x.y', 2], ['copy', 0, 1], ['set', 1, 'q.' + deep, 3],
                                    ['pop', 1, 'x.y'], ['len', 0], ['len', 1], ['match', 0, 'y'], ['match', 1, 'y'],
                                    ['get', 0, deep], ['contains', 1, 'q.' + deep], ['contains', 0, 'q.' + deep]]}
  for k in range((150 if tier == 'quick' else 4000) * boost):
    yield gen_reported_case(rng)
  n = (400 if tier == 'quick' else 6000) * boost
  for k in range(n):
    yield gen_case(rng, rng.randint(20, 60) if k % 10 else rng.randint(2, 8))
  for k in range((300 if tier == 'quick' else 6000) * boost):
    yield gen_api_case(rng)


def run_impl(case):
  if case.get('_kind') == 'reported':
    from props import c06
    out = c06.run_impl(case)
    out['registered'] = [o['_selector'] for o in case['_regops']]
    out['registered_at_end'] = [o['_selector'] for o in case['ops'] if o.get('op') == 'register']
    out['printed_refs'] = _printed_references(case)
    return out
  if case['dom'] == 'gin':
    return gindom.run_impl(case)
  from gin import selector_map
  maps = {}
  out = []
  for op in case['ops']:
    name, i = op[0], op[1]
    try:
      if name == 'new':
        maps[i] = selector_map.SelectorMap(); r = None
      elif name == 'set':
        maps.setdefault(i, selector_map.SelectorMap())[op[2]] = op[3]; r = None
      elif name == 'pop':
        r = maps.setdefault(i, selector_map.SelectorMap()).pop(op[2])
      elif name == 'copy':
        maps[op[2]] = maps.setdefault(i, selector_map.SelectorMap()).copy(); r = None
      elif name == 'clear':
        maps.setdefault(i, selector_map.SelectorMap()).clear(); r = None
      else:
        m = maps.setdefault(i, selector_map.SelectorMap())
        if name == 'match':
          r = sorted(m.matching_selectors(op[2]))
        elif name == 'getm':
          r = m.get_match(op[2], default='default')
        elif name == 'getall':
          ms = m.matching_selectors(op[2])
          vals = m.get_all_matches(op[2])
          r = [v for _, v in sorted(zip(ms, vals))]
        elif name == 'min':
          r = m.minimal_selector(op[2])
        elif name == 'get':
          r = m.get(op[2])
        elif name == 'contains':
          r = op[2] in m
        elif name == 'len':
          r = len(m)
        elif name == 'items':
          r = [[k, v] for k, v in m.items()]
        else:
          raise AssertionError(name)
      out.append({'ok': r})
    except Exception as e:  # pylint: disable=broad-except
      out.append({'err': core.err_class(e)})
  return {'out': out}


def to_driver(case, impl):
  if case['dom'] == 'gin':
    return gindom.to_driver(case, impl)
  return {'dom': 'selmap', 'ops': case['ops']}


def compare(case, impl, model):
  if case.get('_kind') == 'reported':
    from props import c06
    return c06.compare(case, impl, model)
  if case['dom'] == 'gin':
    return gindom.compare(case, impl, model)
  a, b = impl['out'], model.get('out')
  if b is None:
    return f'driver error: {model}'
  for k, (x, y) in enumerate(zip(a, b)):
    if x != y:
      return f"op {k} {case['ops'][k]}: impl {x} model {y}"
  return None


# ------------------------------------------------------------------ independent oracle
def _matches(keys, q):
  if q in keys:
    return [q]
  qc = q.split('.')
  return sorted(k for k in keys if k.split('.')[-len(qc):] == qc)


def oracle(case, impl):
  """Naive set-of-names statement of C08 evaluated on the implementation's answers."""
  if case.get('_kind') == 'reported':
    if 'serialise_error' in impl:
      return f'config_str raised {impl["serialise_error"]}'
    names = impl['registered']
    bound = sorted({(o['scope'], o['sel']) for o in case['_order2'] if o['op'] == 'bind'})
    heads = [sc[0] for sc in impl['out'][-1]['ok']['sections']]
    resolved = []
    for h in heads:
      scope, _, name = h.rpartition('/')
      m = _matches(names, name)
      if len(m) != 1:
        return f'reported name {name!r} (section {h!r}) resolves to {m}'
      resolved.append((scope, m[0]))
    if sorted(resolved) != bound:
      return f'sections resolve to {sorted(resolved)} but the bound entries are {bound}'
    if impl.get('reparse') != 'ok':
      return f'the config string does not parse back: {impl.get("reparse")}'
    # references: the name a reference is printed with resolves (by unique dotted suffix, a complete name winning)
    # back to the entry the reference was written for, in the registry as it is after the whole history
    final = {}
    for op, res in zip(case['ops'], impl['out']):
      if op.get('op') == 'bind' and 'err' not in res:
        final[(op['scope'], op['sel'], op['arg'])] = op['val']
    at_end = impl.get('registered_at_end', names) + ['gin.macro', 'gin.constant', 'gin.singleton']
    seen = {}
    for scope, sel, p, printed, target, back in impl.get('printed_refs', []):
      seen.setdefault((scope, sel, p), []).append(target)
      if printed.startswith('%'):
        continue
      name = printed.lstrip('@').rpartition('/')[2]
      name = name[:-2] if name.endswith('()') else name
      m = _matches(at_end, name)
      if m != [target]:
        return f'{scope}/{sel}.{p}: the reference to {target!r} is printed as {printed!r}, a name that resolves to {m}'
      if back != target:
        return f'{scope}/{sel}.{p}: the reference to {target!r} is printed as {printed!r}, which parses back to {back!r}'
    for key, val in final.items():
      want = sorted(r[1] for r in _case_refs(val))
      if want and sorted(seen.get(key, [])) != want:
        return f'{key}: written with references to {want}, the store holds references to {sorted(seen.get(key, []))}'
    return None
  if case['dom'] == 'gin':
    return refmodel.check_history(case, impl, {'bind', 'query', 'getb', 'getbq', 'config', 'finalize', 'locked'})
  maps = {}
  for k, (op, res) in enumerate(zip(case['ops'], impl['out'])):
    name, i = op[0], op[1]
    d = maps.setdefault(i, {})
    if name == 'new':
      maps[i] = {}
    elif name == 'set':
      valid = bool(core.re.match(r'^([a-zA-Z_]\w*\.)*[a-zA-Z_]\w*$', op[2])) and not op[2].endswith('\n')
      if valid != ('ok' in res):
        return f'op {k} {op}: validity {valid} but {res}'
      if valid:
        d[op[2]] = op[3]
    elif name == 'pop':
      if (op[2] in d) != ('ok' in res):
        return f'op {k} {op}: presence {op[2] in d} but {res}'
      if op[2] in d and res['ok'] != d.pop(op[2]):
        return f'op {k} {op}: wrong value {res}'
    elif name == 'copy':
      maps[op[2]] = dict(d)
    elif name == 'clear':
      d.clear()
    elif name in ('match', 'getm', 'getall'):
      want = _matches(d, op[2])
      if name == 'match' and res != {'ok': want}:
        return f'op {k} {op}: names ending with it are {want} but {res}'
      if name == 'getm':
        exp = {'ok': 'default'} if not want else ({'ok': d[want[0]]} if len(want) == 1 else {'err': 'KeyError'})
        if res != exp:
          return f'op {k} {op}: expected {exp} got {res}'
      if name == 'getall' and res != {'ok': [d[w] for w in want]}:
        return f'op {k} {op}: expected values of {want} got {res}'
    elif name == 'min':
      if op[2] not in d:
        if 'err' not in res:
          return f'op {k} {op}: not stored but {res}'
        continue
      if 'ok' not in res:
        return f'op {k} {op}: stored but {res}'
      full = op[2].split('.')
      got = res['ok'].split('.')
      if full[-len(got):] != got:
        return f'op {k} {op}: {res} is not a suffix'
      if _matches(d, res['ok']) != [op[2]]:
        return f"op {k} {op}: reported {res['ok']} resolves to {_matches(d, res['ok'])}"
      for j in range(1, len(got)):
        if _matches(d, '.'.join(full[-j:])) == [op[2]]:
          return f"op {k} {op}: shorter suffix {'.'.join(full[-j:])} also resolves but {res['ok']} reported"
    elif name == 'items':
      if res != {'ok': [[a, b] for a, b in d.items()]}:
        return f'op {k} {op}: expected {list(d.items())} got {res}'
    elif name == 'get':
      if res != {'ok': d.get(op[2])}:
        return f'op {k} {op}: expected {d.get(op[2])} got {res}'
    elif name == 'contains':
      if res != {'ok': op[2] in d}:
        return f'op {k} {op}: got {res}'
    elif name == 'len':
      if res != {'ok': len(d)}:
        return f'op {k} {op}: got {res}'
  return None


def nontrivial(case, impl):
  if case.get('_kind') == 'reported':
    return len(case['_order2']) >= 2
  if case['dom'] == 'gin':
    return sum(1 for o in case['ops'] if o['op'] in ('query', 'hook')) >= 2
  maps, mutated = {}, False
  ok = False
  for op in case['ops']:
    name, i = op[0], op[1]
    d = maps.setdefault(i, set())
    if name == 'set':
      d.add(op[2])
    elif name == 'pop':
      d.discard(op[2]); mutated = True
    elif name == 'copy':
      maps[op[2]] = set(d); mutated = True
    elif name == 'clear':
      d.clear()
    elif name in ('match', 'getm', 'getall', 'min') and mutated:
      for x, y in itertools.combinations(sorted(d), 2):
        xs, ys = x.split('.'), y.split('.')
        if xs[-1] == ys[-1]:
          ok = True
  return ok


def tally(stats, case, impl):
  if case.get('_kind') == 'reported':
    stats['reported:cases'] = stats.get('reported:cases', 0) + 1
    stats['reported:sections'] = stats.get('reported:sections', 0) + impl.get('text', '').count('# Parameters for')
    return
  if case['dom'] == 'gin':
    for op, res in zip(case['ops'], impl['out']):
      k = 'api:' + op['op'] + ':' + ('ok' if 'ok' in res else res['err'])
      stats[k] = stats.get(k, 0) + 1
    return
  stats['cases'] = stats.get('cases', 0) + 1
  for op, res in zip(case['ops'], impl['out']):
    k = op[0] + (':err' if 'err' in res else '')
    stats[k] = stats.get(k, 0) + 1
    if op[0] == 'match' and 'ok' in res:
      kk = 'match:n=' + str(min(len(res['ok']), 3))
      stats[kk] = stats.get(kk, 0) + 1


def shrink(case):
  ops = case['ops']
  if case.get('_kind') == 'reported':
    return
  if case['dom'] == 'gin':
    for k in range(len(ops) - 1, -1, -1):
      if ops[k]['op'] != 'register':
        yield {'dom': 'gin', 'ops': ops[:k] + ops[k + 1:]}
    return
  for k in range(len(ops) - 1, 0, -1):
    yield {'dom': 'selmap', 'ops': ops[:k] + ops[k + 1:]}


def classify(case, impl, model, why_oracle, why_model, findings):
  return None
