"""Runs gin's real parser and tokenises config texts for the `parse` driver domain."""
import ast
import io
import tokenize

import core
from encode import encode

import warnings
# Python remarks on stderr about backslash sequences it does not know (the literal is accepted): not an outcome
warnings.filterwarnings('ignore', category=SyntaxWarning)
warnings.filterwarnings('ignore', category=DeprecationWarning, message='invalid .*escape')


class _Ref:
  def __init__(self, name, ev):
    self.name, self.ev = name, ev


class _Macro:
  def __init__(self, name):
    self.name = name


def enc_pval(v, gin):
  if isinstance(v, _Ref):
    return {'pref': [v.name, bool(v.ev)]}
  if isinstance(v, _Macro):
    return {'pmacro': v.name}
  t = type(v)
  if t is list:
    return {'l': [enc_pval(x, gin) for x in v]}
  if t is tuple:
    return {'t': [enc_pval(x, gin) for x in v]}
  if t is dict:
    # insertion order of the parsed dict (the model keeps source order too)
    return {'d': [[enc_pval(k, gin), enc_pval(x, gin)] for k, x in v.items()]}
  return encode(v, gin)


def family(e):
  if isinstance(e, (SyntaxError, tokenize.TokenError)):
    return 'syntax'
  return 'other:' + type(e).__name__


def impl_statements(text):
  """Statement stream of config_parser.ConfigParser on `text` (values structurally encoded)."""
  gin = core.fresh_gin() if 'gin' not in __import__('sys').modules else __import__('gin')
  from gin import config_parser

  class Delegate(config_parser.ParserDelegate):
    def configurable_reference(self, scoped_configurable_name, evaluate):
      return _Ref(scoped_configurable_name, evaluate)

    def macro(self, macro_name):
      return _Macro(macro_name)

  out, err = [], None
  try:
    parser = config_parser.ConfigParser(text, Delegate())
    for st in parser:
      if isinstance(st, config_parser.BindingStatement):
        out.append(['bind', st.scope, st.selector, st.arg_name, enc_pval(st.value, gin), st.location.line_num])
      elif isinstance(st, config_parser.BlockDeclaration):
        out.append(['block', st.scope, st.selector, st.location.line_num])
      elif isinstance(st, config_parser.ImportStatement):
        out.append(['import', st.module, bool(st.is_from), st.alias, st.location.line_num])
      elif isinstance(st, config_parser.IncludeStatement):
        out.append(['include', st.filename, st.location.line_num])
      else:
        out.append(['unknown', type(st).__name__])
  except Exception as e:  # pylint: disable=broad-except
    err = family(e)
    if not err.startswith('syntax'):
      return {'stmts': out, 'err': err, 'err_msg': str(e)[:120]}
  return {'stmts': out, 'err': err}


KINDS = {tokenize.NAME: 'NAME', tokenize.NUMBER: 'NUMBER', tokenize.STRING: 'STRING', tokenize.OP: 'OP',
         tokenize.NEWLINE: 'NEWLINE', tokenize.NL: 'NL', tokenize.COMMENT: 'COMMENT', tokenize.INDENT: 'INDENT',
         tokenize.DEDENT: 'DEDENT', tokenize.ENDMARKER: 'ENDMARKER', tokenize.ERRORTOKEN: 'ERRORTOKEN'}


def _atom(s):
  import warnings
  try:
    with warnings.catch_warnings():
      warnings.simplefilter('ignore')
      return {'v': encode(ast.literal_eval(s))}
  except Exception:  # pylint: disable=broad-except
    return None


def tokens_of(text):
  """Python's token stream for `text`, with per-token atoms; a tokenizer error ends it with TOKERR."""
  toks = []
  try:
    for t in tokenize.generate_tokens(io.StringIO(text).readline):
      k = KINDS.get(t.type, 'OTHER:' + tokenize.tok_name.get(t.type, '?'))
      d = {'k': k, 's': t.string, 'r': t.start[0], 'c': t.start[1], 'e': t.end[1], 'l': t.line}
      if k in ('NAME', 'NUMBER', 'STRING'):
        d['a'] = _atom(t.string)
        if k == 'NUMBER':
          d['n'] = _atom('-' + t.string)
      toks.append(d)
  except (tokenize.TokenError, SyntaxError):
    toks.append({'k': 'TOKERR', 's': '', 'r': 0, 'c': 0, 'e': 0, 'l': ''})
  return toks


def to_driver(text):
  return {'dom': 'parse', 'tokens': tokens_of(text)}


def _py_dict(enc):
  """Python's dict() over the (key, value) pairs the model read, in source order: of keys that compare equal the first
  key stays, with the last value (hashing and equality of keys are CPython's; the model keeps every pair)."""
  from encode import decode, canon
  if isinstance(enc, dict):
    if 'd' in enc:
      out = {}
      for k, v in enc['d']:
        k2, v2 = _py_dict(k), _py_dict(v)
        try:
          pk = ('py', decode(k2, None))
          hash(pk)
        except Exception:  # pylint: disable=broad-except
          pk = ('enc', canon(k2))
        if pk in out:
          out[pk][1] = v2
        else:
          out[pk] = [k2, v2]
      return {'d': [list(x) for x in out.values()]}
    return {k: _py_dict(v) for k, v in enc.items()}
  if isinstance(enc, list):
    return [_py_dict(x) for x in enc]
  return enc


def compare(impl, model):
  if 'stmts' not in model:
    return f'driver error: {model}'
  model = dict(model, stmts=[(s[:4] + [_py_dict(s[4])] + s[5:]) if s and s[0] == 'bind' else s for s in model['stmts']])
  if impl['stmts'] != model['stmts']:
    for i, (a, b) in enumerate(zip(impl['stmts'], model['stmts'])):
      if a != b:
        return f'statement {i}: impl {a} model {b}'
    return f'statement count: impl {len(impl["stmts"])} model {len(model["stmts"])}: impl {impl["stmts"][-1:]} model {model["stmts"][-1:]}'
  ie, me = impl['err'], model['err']
  if (ie is None) != (me is None) or (ie and not ie.startswith('syntax') and me):
    return f'outcome: impl {ie} model {me}'
  return None
