"""Generator of statement lists together with a config text that spells them (C14, C15, C16)."""
import gen_gin as G
from encode import to_literal

KNOWN_MODULES = ['os', 'json', 'collections.abc']
MISSING_MODULES = ['no_such_module_xyz', 'os.no_such_sub_xyz', 'ginverif_optdep', 'ginverif_optdep']


def raw_literal(j):
  """Config text of a raw (statement-level) value."""
  if isinstance(j, dict):
    if 'rawref' in j:
      scopes, spelled, ev = j['rawref']
      return '@' + '/'.join(list(scopes) + [spelled]) + ('()' if ev else '')
    if 'rawmacro' in j:
      return '%' + j['rawmacro']
    if 'l' in j:
      return '[' + ', '.join(raw_literal(x) for x in j['l']) + ']'
    if 't' in j:
      xs = [raw_literal(x) for x in j['t']]
      return '(' + ', '.join(xs) + (',' if len(xs) == 1 else '') + ')'
    if 'd' in j:
      return '{' + ', '.join(f'{raw_literal(k)}: {raw_literal(v)}' for k, v in j['d']) + '}'
  return to_literal(j)


def gen_raw(rng, known, unknown, w_ref=0.25, w_unknown=0.0, depth=0):
  r = rng.random()
  if r < w_ref:
    if unknown and rng.random() < w_unknown:
      return {'rawref': [rng.choice([[], ['a']]), rng.choice(unknown), rng.random() < 0.5]}
    sel = rng.choice(known)
    import refmodel
    sp = G.spell(rng, sel) if rng.random() < 0.3 else sel
    if refmodel.suffix_matches(list(known) + ['gin.macro', 'gin.constant', 'gin.singleton'], sp) != [sel]:
      sp = sel   # only unambiguous spellings in well-formed statements
    return {'rawref': [rng.choice([[], ['a'], ['a', 'b']]), sp, rng.random() < 0.5]}
  if r < w_ref + 0.08:
    return {'rawmacro': rng.choice(['m1', 'm2', 'a/b'])}
  if depth < 2 and r < w_ref + 0.25:
    n = rng.randint(1, 3)
    rr = rng.random()
    if rr < 0.4:
      return {'l': [gen_raw(rng, known, unknown, w_ref, w_unknown, depth + 1) for _ in range(n)]}
    if rr < 0.75:
      return {'t': [gen_raw(rng, known, unknown, w_ref, w_unknown, depth + 1) for _ in range(n)]}
    keys = rng.sample([1, 2, {'s': 'k'}, {'s': 'j'}], min(n, 2))
    if w_ref > 0 and rng.random() < 0.25:
      keys[0] = gen_raw(rng, known, unknown, 1.0, w_unknown, 2)   # a reference (known or not) as a key
    from encode import canon
    keys = sorted(keys, key=canon)
    return {'d': [[kk, gen_raw(rng, known, unknown, w_ref, w_unknown, depth + 1)] for kk in keys]}
  return G.gen_value(rng, 1)


SYNTAX_FAULTS = ['bad_value', 'missing_value', 'unbalanced', 'bad_selector', 'no_equals']


def render_syntax_fault(rng, kind, key):
  if kind == 'bad_value':
    return key + ' = ' + rng.choice([')', '1 +', '* 3', 'foo bar', '[1, 2)', '{1: }'])
  if kind == 'missing_value':
    return key + ' ='
  if kind == 'unbalanced':
    return key + ' = ' + rng.choice(['[1, 2', '(1,', '{1: 2'])
  if kind == 'bad_selector':
    return rng.choice(['a..b.x = 1', 'a/ /b.x = 1', '/a.x = 1', 'a b.x = 1', 'a/.x = 1'])
  return key.replace('.', ' ') + ' 3'


class Builder:
  """Accumulates text lines and the statements they spell."""

  def __init__(self):
    self.lines = []
    self.stmts = []

  def line_no(self):
    return len(self.lines) + 1

  def add(self, text, stmt):
    stmt = dict(stmt, line=self.line_no())
    self.lines.extend(text.split('\n'))
    self.stmts.append(stmt)

  def text(self):
    return '\n'.join(self.lines) + '\n'


def key_text(scope, sel, arg):
  return (scope + '/' if scope else '') + sel + ('.' + arg if arg else '')


def add_binding(b, scope, sel, arg, val, layout_rng=None):
  eq = ' = '
  if layout_rng is not None and layout_rng.random() < 0.15:
    eq = ' = \\\n' + ' ' * layout_rng.choice([0, 2, 4])    # the value on a continuation line
  text = key_text(scope, sel, arg) + eq + raw_literal(val)
  if layout_rng is not None and layout_rng.random() < 0.2:
    b.lines.append(layout_rng.choice(['', '# a comment', '   # indented comment']))
  if not arg and '/' in sel:   # macro `a/b = v`: the parser reads scope 'a', name 'b'
    extra, _, sel = sel.rpartition('/')
    scope = (scope + '/' if scope else '') + extra
  b.add(text, {'k': 'bind', 'scope': scope, 'sel': sel, 'arg': arg, 'val': val})


def add_block(b, scope, sel, members, layout_rng=None):
  """members: list of (arg, val). With `layout_rng` some members are written over two lines (`name = \\`, the value
  on the next line): a statement begins on its first line."""
  header = key_text(scope, sel, '') + ':'
  b.add(header, {'k': 'block', 'scope': scope, 'sel': sel})
  for arg, val in members:
    eq = ' = '
    if layout_rng is not None and layout_rng.random() < 0.3:
      eq = ' = \\\n' + ' ' * layout_rng.choice([2, 4, 6])
    b.add('  ' + arg + eq + raw_literal(val), {'k': 'bind', 'scope': scope, 'sel': sel, 'arg': arg, 'val': val})


def strip_private(x):
  if isinstance(x, dict):
    return {k: strip_private(v) for k, v in x.items() if not k.startswith('_')}
  if isinstance(x, list):
    return [strip_private(v) for v in x]
  return x
