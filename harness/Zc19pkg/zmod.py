def zg(b=0):
  return ('zg', b)
