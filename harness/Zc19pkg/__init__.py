"""A second top-level package for the C19 check whose name sorts before `__gin__` (upper-case initial)."""
from . import zmod  # noqa


def zf(a=0):
  return ('zf', a)
