"""Canonical JSON encoding of Python values exchanged with the Lean driver.

None -> null, bool -> true/false, int -> number, float -> {"f": repr, "fin": bool},
complex -> {"c": repr}, str -> {"s": ..}, bytes -> {"b": hex}, list -> {"l": [..]},
tuple -> {"t": [..]}, dict -> {"d": [[k, v], ..]} (insertion order), set/frozenset -> {"set": [..]},
gin.REQUIRED -> {"req": 1}, Opaque(id) -> {"o": id},
ConfigurableReference -> {"ref": [scopes, complete selector, evaluate]} | {"macro": name} |
{"const": full name}, unknown-reference placeholder -> {"unk": [selector, evaluate]},
a delivered configurable -> {"fn": [selector, scopes]}, a probe result -> {"res": [selector, n]}.
"""
import json
import math


class Opaque:
  """An object with no literal representation; identity is the harness-assigned id."""
  _all = {}

  def __init__(self, oid):
    self.oid = oid

  @classmethod
  def get(cls, oid):
    if oid not in cls._all:
      cls._all[oid] = Opaque(oid)
    return cls._all[oid]

  def __repr__(self):
    # some print as text that ends inside a bracket or a string: no literal form either (the tokenizer, not the
    # parser, is what objects)
    if self.oid % 100000 == 3:
      return '[1, 2,'
    if self.oid % 100000 == 8:
      return "'abc"
    return f'<Opaque {self.oid} at 0x7f00>'

  def __deepcopy__(self, memo):
    # a copy is a different object: gin must deliver constants / opaque values themselves
    return Opaque(self.oid + 100000)


import enum


class IntMode(enum.IntEnum):
  """An int whose repr is not a literal (opaque id 21)."""
  FAST = 3


class StrMode(str, enum.Enum):
  """A str whose repr is not a literal (opaque id 22)."""
  FAST = 'fast'


ENUM_OPAQUES = {21: IntMode.FAST, 22: StrMode.FAST}


class AnyEq:
  """Compares equal to everything (like unittest.mock.ANY): only identity tells it from gin.REQUIRED."""
  _all = {}

  def __init__(self, oid):
    self.oid = oid

  @classmethod
  def get(cls, oid):
    if oid not in cls._all:
      cls._all[oid] = AnyEq(oid)
    return cls._all[oid]

  def __eq__(self, other):
    return True

  def __ne__(self, other):
    return False

  def __hash__(self):
    return 7

  def __deepcopy__(self, memo):
    return AnyEq(self.oid + 100000)

  def __repr__(self):
    return f'<AnyEq {self.oid} at 0x7f00>'


class BadRepr:
  """An object that cannot be printed (opaque ids 470..479): whoever calls repr() on it fails."""
  _all = {}

  def __init__(self, oid):
    self.oid = oid

  @classmethod
  def get(cls, oid):
    if oid not in cls._all:
      cls._all[oid] = BadRepr(oid)
    return cls._all[oid]

  def __repr__(self):
    raise RuntimeError('this object cannot be printed')

  def __deepcopy__(self, memo):
    return self


class ProbeResult:
  """What a probe configurable returns."""

  def __init__(self, sel, n):
    self.sel, self.n = sel, n

  def __repr__(self):
    return f'<ProbeResult {self.sel} #{self.n}>'


def canon(x):
  return json.dumps(x, sort_keys=True, separators=(',', ':'))


def encode(v, gin=None, session=None):
  cfgmod = gin.config if gin is not None else None
  if v is None:
    return None
  if v is True or v is False:
    return v
  if cfgmod is not None and v is cfgmod.REQUIRED:
    return {'req': 1}
  t = type(v)
  if t is int:
    return v
  if t is float:
    return {'f': repr(v), 'fin': math.isfinite(v)}
  if t is complex:
    return {'c': repr(v)}
  if t is str:
    return {'s': v}
  if t is bytes:
    return {'b': v.hex()}
  if t is list:
    return {'l': [encode(x, gin, session) for x in v]}
  if t is tuple:
    return {'t': [encode(x, gin, session) for x in v]}
  if t is dict:
    # dict equality ignores insertion order: canonical (sorted) item order
    return {'d': sorted(([encode(k, gin, session), encode(x, gin, session)] for k, x in v.items()), key=lambda kv: canon(kv[0]))}
  if t in (set, frozenset):
    return {'set': sorted((encode(x, gin, session) for x in v), key=canon)}
  if t is AnyEq:
    return {'o': v.oid}
  if t is BadRepr:
    return {'o': v.oid}
  if t is IntMode:
    return {'o': 21}
  if t is StrMode:
    return {'o': 22}
  if t is Opaque:
    oid = v.oid
    # bound opaque values are deep-copied on delivery (ids below 300): the copy is the same value;
    # opaque *constants* (ids 300..399) must be delivered by identity, so their copies stay visible
    if oid >= 100000 and (oid % 100000) < 300:
      oid %= 100000
    return {'o': oid}
  if t is ProbeResult:
    return {'res': [v.sel, v.n]}
  if cfgmod is not None:
    if isinstance(v, cfgmod.ConfigurableReference):
      wrapped = v.configurable.wrapped
      if v.evaluate and wrapped is cfgmod.macro:
        return {'macro': '/'.join(v.scopes)}
      if v.evaluate and wrapped is cfgmod._retrieve_constant:  # pylint: disable=protected-access
        return {'const': '/'.join(v.scopes)}
      return {'ref': [list(v.scopes), v.configurable.selector, bool(v.evaluate)]}
    if isinstance(v, cfgmod._UnknownConfigurableReference):  # pylint: disable=protected-access
      return {'unk': [v.selector, bool(v.evaluate)]}
  probe = getattr(v, '__probe_sel__', None)
  if probe is not None:
    scopes = session.identify(v) if session is not None else None
    return {'fn': [probe, scopes if scopes is not None else []]}
  return {'o': 900000 + (id(v) % 1000), 'type': type(v).__name__}


def decode(j, gin=None):
  if j is None or j is True or j is False:
    return j
  if isinstance(j, int):
    return j
  if isinstance(j, dict):
    if 's' in j:
      return j['s']
    if 'b' in j:
      return bytes.fromhex(j['b'])
    if 'f' in j:
      return float(j['f'])
    if 'c' in j:
      return complex(j['c'])
    if 'l' in j:
      return [decode(x, gin) for x in j['l']]
    if 't' in j:
      return tuple(decode(x, gin) for x in j['t'])
    if 'd' in j:
      return {decode(k, gin): decode(v, gin) for k, v in j['d']}
    if 'set' in j:
      if j.get('m'):    # a mutable set (only an API call can bind one; the parser has no literal for it)
        return set(decode(x, gin) for x in j['set'])
      return frozenset(decode(x, gin) for x in j['set'])
    if 'o' in j:
      if j['o'] in ENUM_OPAQUES:
        return ENUM_OPAQUES[j['o']]
      if 460 <= j['o'] < 470:
        return AnyEq.get(j['o'])
      if 470 <= j['o'] < 480:
        return BadRepr.get(j['o'])
      return Opaque.get(j['o'])
    if 'req' in j:
      return gin.config.REQUIRED
    if 'ref' in j:
      scopes, sel, ev = j['ref']
      return gin.config.ConfigurableReference('/'.join(list(scopes) + [sel]), ev)
    if 'macro' in j:
      return gin.config.ConfigurableReference(j['macro'] + '/gin.macro', True)
    if 'const' in j:
      return gin.config.ConfigurableReference(j['const'] + '/gin.constant', True)
    if 'unk' in j:   # the placeholder skip_unknown leaves for a reference to an unknown configurable
      return gin.config._UnknownConfigurableReference(j['unk'][0], bool(j['unk'][1]))  # pylint: disable=protected-access
  raise ValueError(f'cannot decode {j!r}')


def to_literal(j):
  """Gin/Python literal text of an encoded value (reference forms included)."""
  if j is None or j is True or j is False or isinstance(j, int):
    return repr(j)
  if '_text' in j:
    return j['_text']
  if 's' in j:
    return repr(j['s'])
  if 'b' in j:
    return repr(bytes.fromhex(j['b']))
  if 'f' in j:
    return j['f']
  if 'l' in j:
    return '[' + ', '.join(to_literal(x) for x in j['l']) + ']'
  if 't' in j:
    xs = [to_literal(x) for x in j['t']]
    return '(' + ', '.join(xs) + (',' if len(xs) == 1 else '') + ')'
  if 'd' in j:
    return '{' + ', '.join(f'{to_literal(k)}: {to_literal(v)}' for k, v in j['d']) + '}'
  if 'ref' in j:
    scopes, sel, ev = j['ref']
    return '@' + '/'.join(list(scopes) + [j.get('_spelled', sel)]) + ('()' if ev else '')
  if 'macro' in j:
    return '%' + j['macro']
  if 'const' in j:
    return '%' + j.get('_abbr', j['const'])
  if 'unk' in j:
    return '@' + j['unk'][0] + ('()' if j['unk'][1] else '')
  raise ValueError(f'no literal for {j!r}')
