"""Orchestration shared by every property check.

Flow of `./check Cxx --tier T`:
  1. `lake build` in /verif/lean (re-checks every proof), forbidden-token grep, `#print axioms`
     audit of every theorem in Gin/Props/Cxx.lean.
  2. corpus cases, then cases generated from VERIF_SEED, executed on the real code imported
     from /repo (worker processes), the same cases executed by the Lean mirror (gindrv).
  3. comparison of the property-constrained observables; an independent statement of the
     property (`oracle`) is evaluated on what the implementation did.
  4. evidence file, replay files, exit code (0 ok / 1 VIOLATION / 2 infrastructure).
"""
import concurrent.futures as cf
import fcntl
import hashlib
import importlib
import json
import multiprocessing as mp
import os
import random
import re
import subprocess
import sys
import tempfile
import time
import traceback
from pathlib import Path

VERIF = Path(__file__).resolve().parent.parent
LEAN = VERIF / 'lean'
REPO = Path(os.environ.get('GIN_REPO', '/repo'))
DRIVER = LEAN / '.lake' / 'build' / 'bin' / 'gindrv'
GUARD = 'GIN_CONFIG_VERIF'
STD_AXIOMS = {'propext', 'Classical.choice', 'Quot.sound'}
FORBIDDEN = re.compile(
    r'\bsorry\b|\badmit\b|^\s*axiom\s|native_decide|bv_decide|implemented_by|\bunsafe\s|maxHeartbeats\s+0')


class Infra(Exception):
  """Infrastructure problem: exit 2, never a violation."""


# --------------------------------------------------------------------------- lean side

def _lean_sources():
  # (the audit's own scratch files, `audit-*.lean`, come and go while several checks run side by side)
  files = sorted(p for p in LEAN.rglob('*.lean') if '.lake' not in p.parts and not p.name.startswith('audit-'))
  files.append(LEAN / 'lakefile.toml')
  return files


def _sources_hash():
  h = hashlib.sha256()
  for p in _lean_sources():
    h.update(str(p.relative_to(LEAN)).encode())
    h.update(p.read_bytes())
  return h.hexdigest()


def _strip_comments(text):
  # remove /- ... -/ (nested) and -- ... comments
  out, depth, i = [], 0, 0
  while i < len(text):
    if text.startswith('/-', i):
      depth += 1
      i += 2
    elif depth and text.startswith('-/', i):
      depth -= 1
      i += 2
    elif depth:
      if text[i] == '\n':
        out.append('\n')
      i += 1
    elif text.startswith('--', i):
      while i < len(text) and text[i] != '\n':
        i += 1
    else:
      out.append(text[i])
      i += 1
  return ''.join(out)


def forbidden_hits():
  hits = []
  for p in _lean_sources():
    if p.suffix != '.lean':
      continue
    for n, line in enumerate(_strip_comments(p.read_text()).split('\n'), 1):
      if FORBIDDEN.search(line):
        hits.append(f'{p.relative_to(LEAN)}:{n}: {line.strip()}')
  return hits


def lean_build(clean=False):
  """Builds library + driver under a file lock. Returns (ok, log, seconds)."""
  lock = open(LEAN / '.build.lock', 'w')
  fcntl.flock(lock, fcntl.LOCK_EX)
  try:
    t0 = time.time()
    if clean:
      subprocess.run(['lake', 'clean'], cwd=LEAN, capture_output=True)
    r = subprocess.run(['lake', 'build'], cwd=LEAN, capture_output=True, text=True)
    return r.returncode == 0, (r.stdout + r.stderr)[-4000:], time.time() - t0
  finally:
    fcntl.flock(lock, fcntl.LOCK_UN)
    lock.close()


def theorem_names(props_file):
  """Names of the theorems declared in a Props file (namespace-qualified)."""
  text = _strip_comments((LEAN / props_file).read_text())
  ns = []
  names = []
  for line in text.split('\n'):
    m = re.match(r'\s*namespace\s+(\S+)', line)
    if m:
      ns.append(m.group(1))
      continue
    m = re.match(r'\s*end\s+(\S+)', line)
    if m and ns and ns[-1] == m.group(1):
      ns.pop()
      continue
    m = re.match(r'\s*(?:private\s+|protected\s+)?theorem\s+([^\s:({\[]+)', line)
    if m:
      names.append('.'.join(ns + [m.group(1)]))
  return names


def axiom_audit(props_files):
  """Runs `#print axioms` on every theorem of the given Props files.

  Returns dict theorem -> sorted list of axioms (cached by the hash of all Lean sources)."""
  cache_file = LEAN / '.lake' / 'audit-cache.json'
  key = _sources_hash() + '|' + ','.join(props_files)
  cache = {}
  if cache_file.exists():
    try:
      cache = json.loads(cache_file.read_text())
    except Exception:
      cache = {}
  if key in cache:
    return cache[key]
  result = {}
  for pf in props_files:
    names = theorem_names(pf)
    module = pf[:-5].replace('/', '.')
    src = f'import {module}\n' + ''.join(f'#print axioms {n}\n' for n in names)
    with tempfile.NamedTemporaryFile('w', prefix='audit-', suffix='.lean', dir=LEAN, delete=False) as f:
      f.write(src)
      tmp = f.name
    try:
      r = subprocess.run(['lake', 'env', 'lean', tmp], cwd=LEAN, capture_output=True, text=True)
    finally:
      os.unlink(tmp)
    out = r.stdout + r.stderr
    if r.returncode != 0:
      raise Infra('axiom audit failed:\n' + out[-2000:])
    flat = re.sub(r'\s+', ' ', out)
    for n in names:
      m = re.search(r"'" + re.escape(n) + r"' depends on axioms: \[([^\]]*)\]", flat)
      if m:
        result[n] = sorted(a.strip() for a in m.group(1).split(',') if a.strip())
      elif re.search(r"'" + re.escape(n) + r"' does not depend on any axioms", flat):
        result[n] = []
      else:
        raise Infra(f'axiom audit: no result for {n}\n{out[-1500:]}')
  cache = {key: result}
  cache_file.parent.mkdir(parents=True, exist_ok=True)
  cache_file.write_text(json.dumps(cache))
  return result


class Driver:
  """Persistent gindrv process: one JSON case per line in, one result per line out."""

  def __init__(self):
    if not DRIVER.exists():
      raise Infra(f'driver not built: {DRIVER}')
    self.p = subprocess.Popen([str(DRIVER)], stdin=subprocess.PIPE, stdout=subprocess.PIPE,
                              text=True, bufsize=1)

  def ask(self, req):
    self.p.stdin.write(json.dumps(req) + '\n')
    self.p.stdin.flush()
    line = self.p.stdout.readline()
    if not line:
      raise Infra('driver died on request ' + json.dumps(req)[:500])
    return json.loads(line)

  def close(self):
    try:
      self.p.stdin.close()
      self.p.wait(timeout=5)
    except Exception:
      self.p.kill()


def run_driver_batch(reqs):
  """Runs a batch through a fresh driver process; returns the list of answers."""
  if not reqs:
    return []
  if not DRIVER.exists():
    raise Infra(f'driver not built: {DRIVER}')
  data = '\n'.join(json.dumps(r) for r in reqs) + '\n'
  r = subprocess.run([str(DRIVER)], input=data, capture_output=True, text=True)
  lines = [l for l in r.stdout.split('\n') if l.strip()]
  if r.returncode != 0 or len(lines) != len(reqs):
    raise Infra(f'driver returned {len(lines)} answers for {len(reqs)} requests '
                f'(rc={r.returncode}): {r.stderr[-500:]}')
  return [json.loads(l) for l in lines]


# --------------------------------------------------------------------------- implementation side

def fresh_gin():
  """Re-imports gin from REPO so that every case starts from pristine module state."""
  for k in [k for k in sys.modules if k == 'gin' or k.startswith('gin.')]:
    del sys.modules[k]
  if str(REPO) not in sys.path:
    sys.path.insert(0, str(REPO))
  import gin  # noqa
  from gin import config, config_parser, selector_map, utils  # noqa
  if not str(Path(gin.__file__).resolve()).startswith(str(REPO.resolve())):
    raise Infra(f'gin imported from {gin.__file__}, expected {REPO}')
  return gin


def same(a, b):
  """Equality of encoded observations that does not conflate True with 1 (Python's == does, at any depth)."""
  if isinstance(a, bool) or isinstance(b, bool):
    return isinstance(a, bool) and isinstance(b, bool) and a == b
  if isinstance(a, dict) and isinstance(b, dict):
    return a.keys() == b.keys() and all(same(a[k], b[k]) for k in a)
  if isinstance(a, (list, tuple)) and isinstance(b, (list, tuple)):
    return len(a) == len(b) and all(same(x, y) for x, y in zip(a, b))
  if type(a) is not type(b) and not (isinstance(a, (list, tuple)) and isinstance(b, (list, tuple))):
    return False
  return a == b


def err_class(e):
  return type(e).__name__


def _worker_init(prop_module, repo):
  import logging
  logging.disable(logging.CRITICAL)   # gin logs every unreadable location; the checks judge outcomes
  os.environ[GUARD] = '1'
  os.environ['GIN_REPO'] = repo
  sys.setrecursionlimit(3000)
  global _PROP
  _PROP = importlib.import_module(prop_module)


def _worker_run(cases):
  out = []
  for c in cases:
    try:
      out.append(_PROP.run_impl(c))
    except Infra:
      raise
    except BaseException as e:  # a crash of the harness itself is reported, not hidden
      # ... unless it is the implementation that raised (innermost frame inside the repository) at a point where the
      # harness expects it to return: that is an observation about the code on this very input
      # (frames of the standard library below the repository's frame count as the repository's: `tokenize` raising
      # under `config_str`, say)
      tb, last = e.__traceback__, None
      here = os.path.realpath(os.path.dirname(__file__)) + os.sep
      there = os.path.realpath(str(REPO)) + os.sep
      while tb is not None:
        fn = os.path.realpath(tb.tb_frame.f_code.co_filename)
        if fn.startswith(here) or fn.startswith(there):
          last = fn
        tb = tb.tb_next
      out.append({'harness_exception': err_class(e), 'trace': traceback.format_exc()[-1500:],
                  'raised_in_repo': bool(last) and os.path.realpath(last).startswith(os.path.realpath(str(REPO)) + os.sep)})
  return out


def run_impl_parallel(prop_module, cases, jobs=None, chunk=25):
  jobs = jobs or min(16, os.cpu_count() or 4)
  if not cases:
    return []
  chunks = [cases[i:i + chunk] for i in range(0, len(cases), chunk)]
  ctx = mp.get_context('spawn')
  with cf.ProcessPoolExecutor(max_workers=min(jobs, len(chunks)), mp_context=ctx,
                              initializer=_worker_init,
                              initargs=(prop_module, str(REPO))) as ex:
    results = list(ex.map(_worker_run, chunks))
  return [r for ch in results for r in ch]


# --------------------------------------------------------------------------- repo fingerprint

def repo_fingerprint():
  h = {}
  for p in sorted((REPO / 'gin').glob('*.py')):
    h[p.name] = hashlib.sha256(p.read_bytes()).hexdigest()[:16]
  return h


def anchors_changed():
  f = VERIF / 'harness' / 'anchors.json'
  if not f.exists():
    return []
  want = json.loads(f.read_text())
  have = repo_fingerprint()
  return sorted(k for k in want if have.get(k) != want[k])


# --------------------------------------------------------------------------- known findings

def known_findings(prop_id):
  f = VERIF / 'KNOWN_FINDINGS.json'
  if not f.exists():
    return []
  data = json.loads(f.read_text())
  return [e for e in data.get('entries', []) if e.get('property') == prop_id
          and e.get('status') == 'finding']


# --------------------------------------------------------------------------- main

def canon(x):
  return json.dumps(x, sort_keys=True, separators=(',', ':'))


def check(prop_module, tier, seed, replay=None):
  t0 = time.time()
  P = importlib.import_module(prop_module)
  pid = P.ID
  os.environ[GUARD] = '1'
  evidence_path = VERIF / 'evidence' / f'{pid}.json'
  evidence_path.parent.mkdir(exist_ok=True)

  # 1. proofs ---------------------------------------------------------------
  ok, log, build_s = lean_build(clean=(tier == 'thorough' and os.environ.get('VERIF_CLEAN') == '1'))
  if not ok:
    print(log)
    raise Infra('lake build failed')
  hits = forbidden_hits()
  audit = axiom_audit(P.PROPS_FILES)
  bad_axioms = {n: a for n, a in audit.items() if not set(a) <= STD_AXIOMS}
  obligations = sorted(audit)
  discharged = [n for n in obligations if n not in bad_axioms]
  leanchecker = None
  if tier == 'thorough' and os.environ.get('VERIF_LEANCHECKER', '1') == '1':
    mods = [pf[:-5].replace('/', '.') for pf in P.PROPS_FILES]
    r = subprocess.run(['lake', 'env', 'leanchecker'] + mods, cwd=LEAN, capture_output=True,
                       text=True)
    leanchecker = {'modules': mods, 'rc': r.returncode, 'tail': (r.stdout + r.stderr)[-300:]}
    if r.returncode != 0:
      raise Infra('leanchecker rejected the compiled proofs: ' + leanchecker['tail'])
  if hits or bad_axioms:
    raise Infra(f'proof hygiene: forbidden={hits} axioms={bad_axioms}')

  # 2. cases ------------------------------------------------------------------
  changed = anchors_changed()
  touched = [c for c in changed if c in getattr(P, 'ANCHOR_FILES', [])]
  boost = 3 if (tier == 'quick' and touched) else 1
  rng = random.Random(seed)
  cases = []
  if replay:
    rp = json.loads(Path(replay).read_text())
    cases = [rp['case']] if 'case' in rp else rp['cases']
  else:
    corpus_dir = VERIF / 'corpus' / pid
    if corpus_dir.exists():
      for f in sorted(corpus_dir.glob('*.json')):
        d = json.loads(f.read_text())
        for c in (d if isinstance(d, list) else [d]):
          c.setdefault('origin', f'corpus/{f.name}')
          cases.append(c)
    cases += list(P.gen_cases(rng, tier, boost))
  for i, c in enumerate(cases):
    c['idx'] = i

  # 3. run -----------------------------------------------------------------------
  impl = run_impl_parallel(prop_module, cases)
  raised = [(c, o) for c, o in zip(cases, impl) if o.get('harness_exception') and o.get('raised_in_repo')]
  if raised:
    keep = [(c, o) for c, o in zip(cases, impl) if not (o.get('harness_exception') and o.get('raised_in_repo'))]
    cases, impl = [c for c, _ in keep], [o for _, o in keep]
  reqs = [P.to_driver(c, o) for c, o in zip(cases, impl)]
  model = run_driver_batch(reqs)

  failures = []  # (case, impl, model, why, kind)
  seen = set()
  nontrivial = 0
  stats = {}
  for c, o, m in zip(cases, impl, model):
    if 'harness_exception' in o:
      raise Infra(f"harness crashed on case {c.get('idx')}: {o['trace']}")
    key = hashlib.sha1(canon({k: v for k, v in c.items() if k not in ('idx', 'origin')}).encode()).hexdigest()
    if key not in seen:
      seen.add(key)
      if P.nontrivial(c, o):
        nontrivial += 1
    P.tally(stats, c, o)
    why_oracle = P.oracle(c, o)
    why_model = P.compare(c, o, m)
    if why_oracle or why_model:
      failures.append((c, o, m, why_oracle, why_model))

  # 4. decide ----------------------------------------------------------------
  findings = known_findings(pid)
  reported, known_hits, violations = [], {}, 0
  out_lines = []
  replay_dir = VERIF / 'replays'
  if not replay and replay_dir.is_dir():
    # replay files of an earlier run with this property and seed would read as results of this one
    for old in replay_dir.glob(f'{pid}-{seed}-*.json'):
      try:
        old.unlink()
      except OSError:
        pass
  for (c, o, m, why_oracle, why_model) in failures:
    fid = P.classify(c, o, m, why_oracle, why_model, findings) if findings else None
    if fid:
      known_hits.setdefault(fid, []).append(c.get('idx'))
      continue
    if len(reported) >= 5:
      violations += 1
      continue
    # shrink
    small = c
    if hasattr(P, 'shrink') and not replay:
      try:
        small = shrink_case(P, c, findings)
      except Exception:
        small = c
    so = P.run_impl(small) if small is not c else o
    sm = run_driver_batch([P.to_driver(small, so)])[0] if small is not c else m
    w_or = P.oracle(small, so)
    w_mo = P.compare(small, so, sm)
    replay_dir.mkdir(exist_ok=True)
    rp = replay_dir / f'{pid}-{seed}-{len(reported)}.json'
    rec = {
        'property': pid, 'seed': seed, 'tier': tier, 'case': {k: v for k, v in small.items() if k != 'idx'},
        'impl': so, 'model': sm,
        'property_oracle': w_or, 'correspondence': w_mo,
        'failing_input_found': bool(w_or),
        'unchecked': None if w_or else f'corr:{P.DOMAIN} (theorems: {", ".join(obligations[:6])}…)',
        'rerun': f'./check {pid} --replay {rp.relative_to(VERIF)}',
    }
    rp.write_text(json.dumps(rec, indent=1, sort_keys=True))
    tail = '' if w_or else ' no-failing-input-found'
    out_lines.append(f'VIOLATION property={pid} replay={rp}{tail}')
    reported.append(str(rp))
    violations += 1
  for (c, o) in raised:
    # the implementation raised where every run on the recorded tree returns: the correspondence is broken on this
    # input (the input is the replay; whether the property itself fails there is not decided)
    violations += 1
    if len(reported) >= 5:
      continue
    replay_dir.mkdir(exist_ok=True)
    rp = replay_dir / f'{pid}-{seed}-{len(reported)}.json'
    rp.write_text(json.dumps({'property': pid, 'seed': seed, 'tier': tier, 'case': {k: v for k, v in c.items() if k != 'idx'},
                              'impl': o, 'model': None, 'property_oracle': None,
                              'correspondence': f"the implementation raised {o['harness_exception']} at a point where it returns on the recorded tree",
                              'failing_input_found': False, 'unchecked': f'corr:{P.DOMAIN}',
                              'rerun': f'./check {pid} --replay {rp.relative_to(VERIF)}'}, indent=1, sort_keys=True))
    out_lines.append(f'VIOLATION property={pid} replay={rp} no-failing-input-found')
    reported.append(str(rp))
  for e in findings:
    out_lines.insert(0, f"KNOWN-FINDING: property={pid} {e['id']}: {e['what']}"
                     + (f" (hit by {len(known_hits[e['id']])} cases this run)" if e['id'] in known_hits else ''))

  # 5. evidence ---------------------------------------------------------------
  samples = [{'case': {k: v for k, v in c.items() if k != 'idx'}, 'impl': o}
             for c, o in list(zip(cases, impl))[:: max(1, len(cases) // 3)][:3]]
  ev = {
      'property_id': pid, 'tier': tier, 'seed': seed, 'level': 'proof',
      'coverage': {
          'obligations': len(obligations), 'discharged': len(discharged),
          'theorems': obligations,
          'axioms': audit,
          'checker_cmd': 'cd lean && lake build  # + `lake env lean` with #print axioms per theorem'
                         + (' ; lake env leanchecker <Props modules>' if leanchecker else ''),
          'trusted_base': P.TRUSTED_BASE,
          'evaluations': len(cases), 'distinct_nontrivial': nontrivial,
          'rule': P.RULE, 'samples': samples,
          'traces_validated_against_impl': len(cases),
          'disagreements_checked': len(failures),
          'generator_distribution': stats,
          'anchor_files_changed': touched, 'budget_boost': boost,
          'leanchecker': leanchecker,
          'lake_build_s': round(build_s, 2),
          'known_finding_hits': {k: len(v) for k, v in known_hits.items()},
          'explanation': P.EXPLANATION,
      },
      'assumptions': P.ASSUMPTIONS,
      'wall_s': round(time.time() - t0, 2),
      'violations': violations,
  }
  evidence_path.write_text(json.dumps(ev, indent=1, sort_keys=True, default=str))
  for l in out_lines:
    print(l)
  print(f'{pid} {tier} seed={seed}: theorems {len(discharged)}/{len(obligations)}, cases {len(cases)} '
        f'(non-trivial distinct {nontrivial}), disagreements {len(failures)}, violations {violations}, '
        f'{time.time() - t0:.1f}s')
  return 1 if violations else 0


def shrink_case(P, case, findings, budget_s=20):
  """Greedy delta-debugging using the property module's `shrink(case)` candidates."""
  t0 = time.time()
  drv = Driver()
  try:
    def fails(c):
      o = P.run_impl(c)
      if 'harness_exception' in o:
        return False
      m = drv.ask(P.to_driver(c, o))
      wo, wm = P.oracle(c, o), P.compare(c, o, m)
      if not (wo or wm):
        return False
      if findings and P.classify(c, o, m, wo, wm, findings):
        return False
      return True
    cur = case
    progress = True
    while progress and time.time() - t0 < budget_s:
      progress = False
      for cand in P.shrink(cur):
        if time.time() - t0 > budget_s:
          break
        if fails(cand):
          cur = cand
          progress = True
          break
    return cur
  finally:
    drv.close()


def main(argv=None):
  import argparse
  ap = argparse.ArgumentParser()
  ap.add_argument('prop')
  ap.add_argument('--tier', default=os.environ.get('VERIF_TIER', 'quick'), choices=['quick', 'thorough'])
  ap.add_argument('--replay')
  ap.add_argument('--seed', type=int, default=int(os.environ.get('VERIF_SEED', '0') or 0))
  a = ap.parse_args(argv)
  mod = f'props.{a.prop.lower()}'
  try:
    rc = check(mod, a.tier, a.seed, a.replay)
  except Infra as e:
    print(f'INFRASTRUCTURE-ERROR {a.prop}: {e}', file=sys.stderr)
    rc = 2
  sys.exit(rc)


if __name__ == '__main__':
  main()
