"""Structured generator for `gin`-domain cases (registrations, bindings, scoped calls)."""
ALPHA = ['a', 'b', 'c']
PNAMES = ['x', 'y', 'z', 'w', 'v', 'u']
MODULES = ['m', 'm.n', 'k.n', 'k', 'q.m.n']
LEAVES = ['f', 'g', 'h']
REQ = {'req': 1}


def gen_value(rng, depth=0, opaque=0.0):
  r = rng.random()
  if opaque and r < opaque:
    return {'o': rng.randint(1, 5)}
  if depth >= 2 or r < 0.55:
    k = rng.randint(0, 7)
    if k == 0:
      return None
    if k == 1:
      return rng.choice([True, False])
    if k in (2, 3):
      return rng.randint(-5, 40)
    if k == 4:
      return {'s': rng.choice(['', 'p', 'q r', "it's"])}
    if k == 5:
      return {'f': repr(rng.choice([0.5, -1.25, 3.0, 1e20])), 'fin': True}
    if k == 6:
      return {'b': rng.choice(['', '00ff', '61'])}
    return rng.randint(100, 104)
  k = rng.randint(0, 2)
  n = rng.randint(0, 3)
  if k == 0:
    return {'l': [gen_value(rng, depth + 1, opaque) for _ in range(n)]}
  if k == 1:
    return {'t': [gen_value(rng, depth + 1, opaque) for _ in range(n)]}
  keys = rng.sample([1, 2, {'s': 'k'}, {'s': 'j'}, None, {'t': [1, 2]}], min(n, 3))
  return {'d': [[kk, gen_value(rng, depth + 1, opaque)] for kk in keys]}


def gen_sig(rng, kind, w_required=0.0, w_opaque_default=0.0, max_params=5):
  n = rng.randint(0, max_params)
  names = rng.sample(PNAMES, n)
  shapes = sorted(rng.choice(['plain', 'plain', 'dflt', 'dflt', 'kwonly', 'kwonly_dflt']) for _ in range(n))
  order = {'plain': 0, 'dflt': 1, 'kwonly': 2, 'kwonly_dflt': 2}
  shapes.sort(key=lambda s: order[s])

  def default():
    if rng.random() < w_required:
      return {'v': REQ}
    return {'v': gen_value(rng, 1, w_opaque_default)}

  pos, kwonly = [], []
  if kind != 'fn':
    pos.append(['self' if kind == 'init' else 'cls', None])
  for nm, sh in zip(names, shapes):
    if sh == 'plain':
      pos.append([nm, None])
    elif sh == 'dflt':
      pos.append([nm, default()])
    elif sh == 'kwonly':
      kwonly.append([nm, None])
    else:
      kwonly.append([nm, default()])
  return {'pos': pos, 'kwonly': kwonly, 'varargs': rng.random() < 0.25, 'varkw': rng.random() < 0.3}


def sig_names(sig, kind):
  pos = [p[0] for p in sig['pos']]
  if kind != 'fn':
    pos = pos[1:]
  return pos, [p[0] for p in sig['kwonly']]


def gen_registry(rng, n, **sigkw):
  """n distinct configurables whose names share suffixes; valid registrations."""
  regs, used = [], set()
  while len(regs) < n:
    module, leaf = rng.choice(MODULES), rng.choice(LEAVES)
    sel = module + '.' + leaf
    if sel in used:
      continue
    used.add(sel)
    kind = rng.choice(['fn', 'fn', 'fn', 'init', 'new'])
    api = rng.choice(['configurable', 'register', 'external'])
    sig = gen_sig(rng, kind, **sigkw)
    pos, kwo = sig_names(sig, kind)
    allow, deny = [], []
    cand = pos + kwo
    r = rng.random()
    if cand and r < 0.15:
      allow = rng.sample(cand, rng.randint(1, len(cand)))
    elif cand and r < 0.3:
      deny = rng.sample(cand, rng.randint(1, len(cand)))
    # a signature-level REQUIRED must stay configurable
    reqd = [p[0] for p in sig['pos'] + sig['kwonly'] if p[1] is not None and p[1]['v'] == REQ]
    if allow:
      allow = sorted(set(allow) | set(reqd))
    deny = [d for d in deny if d not in reqd]
    regs.append({'op': 'register', 'name': leaf, 'nameValid': True, 'module': module, 'moduleValid': True,
                 'sig': sig, 'allow': allow, 'deny': deny, 'listTypesOk': True, 'obj': len(regs),
                 'method': False, '_kind': kind, '_api': api, '_pymodule': module, '_selector': sel})
  return regs


def rand_scope(rng, maxdepth=4):
  return [rng.choice(ALPHA) for _ in range(rng.randint(0, maxdepth))]


def gen_enter(rng, target_scope=None, w_invalid=0.0):
  """A chain of config_scope arguments; when target_scope is given the chain ends exactly there."""
  if target_scope is None:
    target_scope = rand_scope(rng)
  chain = []
  r = rng.random()
  if r < 0.15:
    # noise first, then an explicit list replaces everything
    for _ in range(rng.randint(0, 2)):
      chain.append({'k': 'name', 'v': rng.choice(ALPHA)})
    chain.append({'k': 'list', 'v': list(target_scope)})
  elif r < 0.25:
    chain.append({'k': 'name', 'v': rng.choice(ALPHA)})
    chain.append({'k': 'clear', 'v': rng.choice([None, ''])})
    i = 0
    while i < len(target_scope):
      j = min(len(target_scope), i + rng.randint(1, 2))
      chain.append({'k': 'name', 'v': '/'.join(target_scope[i:j])})
      i = j
  else:
    i = 0
    while i < len(target_scope):
      j = min(len(target_scope), i + rng.randint(1, 2))
      chain.append({'k': 'name', 'v': '/'.join(target_scope[i:j])})
      i = j
  if w_invalid and rng.random() < w_invalid:
    chain.insert(rng.randint(0, len(chain)), rng.choice(
        [{'k': 'name', 'v': 'a//b'}, {'k': 'name', 'v': '1x'}, {'k': 'invalid', 'v': 42},
         {'k': 'list', 'v': ['a', 'b c']}, {'k': 'name', 'v': 'a/'}]))
  return chain


def gen_call(rng, reg, enter, w_required=0.0, w_bad=0.05):
  sig, kind = reg['sig'], reg['_kind']
  pos, kwo = sig_names(sig, kind)
  args, kwargs = [], []
  still_positional = True
  for nm in pos:
    r = rng.random()
    val = REQ if rng.random() < w_required else gen_value(rng, 1)
    if still_positional and r < 0.4:
      args.append(val)
    elif r < 0.65:
      still_positional = False
      kwargs.append([nm, val])
    else:
      still_positional = False
  if still_positional and (sig['varargs'] or rng.random() < w_bad):
    for _ in range(rng.randint(0, 2)):
      args.append(REQ if rng.random() < w_required * 0.5 else gen_value(rng, 1))
  for nm in kwo:
    if rng.random() < 0.35:
      kwargs.append([nm, REQ if rng.random() < w_required else gen_value(rng, 1)])
  if sig['varkw'] or rng.random() < w_bad:
    for nm in rng.sample(['e1', 'e2'], rng.randint(0, 2)):
      kwargs.append([nm, REQ if rng.random() < w_required else gen_value(rng, 1)])
  rng.shuffle(kwargs)
  op = {'op': 'call', 'sel': reg['_selector'], 'enter': enter, 'args': args, 'kwargs': kwargs,
        '_target': reg['obj']}
  if kind != 'fn':
    op['args'] = [{'o': 5000 + reg['obj']}] + args
    op['_selfname'] = sig['pos'][0][0]
  if reg['_api'] == 'configurable' and rng.random() < 0.2:
    op['_via'] = 'get_configurable'
  return op


def spell(rng, sel):
  """A random (possibly abbreviated) spelling of a complete selector; may be ambiguous."""
  parts = sel.split('.')
  k = rng.randint(1, len(parts))
  return '.'.join(parts[-k:])


def gen_bind(rng, reg, scope, value=None, full_spelling=True):
  sig, kind = reg['sig'], reg['_kind']
  pos, kwo = sig_names(sig, kind)
  cand = pos + kwo + (['e1', 'e2', 'k9'] if sig['varkw'] else [])
  if reg['allow']:
    cand = [c for c in cand if c in reg['allow']]
  cand = [c for c in cand if c not in reg['deny']]
  if not cand:
    return None
  arg = rng.choice(cand)
  return {'op': 'bind', 'scope': '/'.join(scope), 'sel': reg['_selector'], 'arg': arg,
          'val': gen_value(rng, 0) if value is None else value,
          '_form': rng.choice(['tuple', 'tuple', 'list', 'str', 'text', 'block'])}
