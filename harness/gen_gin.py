"""Structured generator for `gin`-domain cases (registrations, bindings, scoped calls)."""
ALPHA = ['a', 'b', 'c']
# scope components include look-alikes: 'a' is a character prefix of 'ab' / 'a_b' but not a component prefix
SCOPE_ALPHA = ['a', 'b', 'c', 'ab', 'a_b', 'a']
PNAMES = ['x', 'y', 'z', 'w', 'v', 'u', 'X', 'Y']   # 'x'/'X': names that differ only in case
MODULES = ['m', 'm.n', 'k.n', 'k', 'q.m.n']
LEAVES = ['f', 'g', 'h']
REQ = {'req': 1}


def gen_value(rng, depth=0, opaque=0.0):
  r = rng.random()
  if opaque and r < opaque:
    if rng.random() < 0.3:   # a scalar without literal form
      return {'f': rng.choice(['inf', '-inf', 'nan']), 'fin': False}
    return {'o': rng.randint(1, 5)}
  if depth >= 2 or r < 0.55:
    k = rng.randint(0, 7)
    if k == 0:
      return None
    if k == 1:
      return rng.choice([True, False])
    if k in (2, 3):
      return rng.randint(-5, 40)
    if k == 4:
      return {'s': rng.choice(['', 'p', 'q r', "it's"])}
    if k == 5:
      return {'f': repr(rng.choice([0.5, -1.25, 3.0, 1e20])), 'fin': True}
    if k == 6:
      return {'b': rng.choice(['', '00ff', '61'])}
    return rng.randint(100, 104)
  k = rng.randint(0, 2)
  n = rng.randint(0, 3)
  if k == 0:
    return {'l': [gen_value(rng, depth + 1, opaque) for _ in range(n)]}
  if k == 1:
    return {'t': [gen_value(rng, depth + 1, opaque) for _ in range(n)]}
  keys = rng.sample([1, 2, {'s': 'k'}, {'s': 'j'}, None, {'t': [1, 2]}], min(n, 3))
  from encode import canon
  keys = sorted(keys, key=canon)
  return {'d': [[kk, gen_value(rng, depth + 1, opaque)] for kk in keys]}


def gen_sig(rng, kind, w_required=0.0, w_opaque_default=0.0, max_params=5, w_posonly=0.0):
  n = rng.randint(0, max_params)
  names = rng.sample(PNAMES, n)
  shapes = sorted(rng.choice(['plain', 'plain', 'dflt', 'dflt', 'kwonly', 'kwonly_dflt']) for _ in range(n))
  order = {'plain': 0, 'dflt': 1, 'kwonly': 2, 'kwonly_dflt': 2}
  shapes.sort(key=lambda s: order[s])

  def default():
    if rng.random() < w_required:
      return {'v': REQ}
    return {'v': gen_value(rng, 1, w_opaque_default)}

  pos, kwonly = [], []
  if kind != 'fn':
    pos.append(['self' if kind == 'init' else 'cls', None])
  for nm, sh in zip(names, shapes):
    if sh == 'plain':
      pos.append([nm, None])
    elif sh == 'dflt':
      pos.append([nm, default()])
    elif sh == 'kwonly':
      kwonly.append([nm, None])
    else:
      kwonly.append([nm, default()])
  sig = {'pos': pos, 'kwonly': kwonly, 'varargs': rng.random() < 0.25, 'varkw': rng.random() < 0.3}
  own = len(pos) - (0 if kind == 'fn' else 1)
  if own and rng.random() < w_posonly:
    # the first k of its own positional parameters are positional-only (`def f(a, b, /, c)`); `self` / `cls` counts
    sig['posonly'] = rng.randint(1, own) + (0 if kind == 'fn' else 1)
  return sig


def sig_names(sig, kind):
  pos = [p[0] for p in sig['pos']]
  if kind != 'fn':
    pos = pos[1:]
  return pos, [p[0] for p in sig['kwonly']]


def gen_registry(rng, n, **sigkw):
  """n distinct configurables whose names share suffixes; valid registrations."""
  regs, used = [], set()
  while len(regs) < n:
    module, leaf = rng.choice(MODULES), rng.choice(LEAVES)
    sel = module + '.' + leaf
    if sel in used:
      continue
    used.add(sel)
    kind = rng.choice(['fn', 'fn', 'fn', 'init', 'new'])
    api = rng.choice(['configurable', 'register', 'external'])
    sig = gen_sig(rng, kind, **sigkw)
    pos, kwo = sig_names(sig, kind)
    allow, deny = [], []
    cand = pos + kwo
    r = rng.random()
    if cand and r < 0.15:
      allow = rng.sample(cand, rng.randint(1, len(cand)))
    elif cand and r < 0.3:
      deny = rng.sample(cand, rng.randint(1, len(cand)))
    # a signature-level REQUIRED must stay configurable
    reqd = [p[0] for p in sig['pos'] + sig['kwonly'] if p[1] is not None and p[1]['v'] == REQ]
    if allow:
      allow = sorted(set(allow) | set(reqd))
    deny = [d for d in deny if d not in reqd]
    regs.append({'op': 'register', 'name': leaf, 'nameValid': True, 'module': module, 'moduleValid': True,
                 'sig': sig, 'allow': allow, 'deny': deny, 'listTypesOk': True, 'obj': len(regs),
                 'method': False, '_kind': kind, '_api': api, '_pymodule': module, '_selector': sel,
                 '_direct': rng.random() < 0.4})
  return regs


def rand_scope(rng, maxdepth=4):
  return [rng.choice(SCOPE_ALPHA) for _ in range(rng.randint(0, maxdepth))]


def gen_enter(rng, target_scope=None, w_invalid=0.0):
  """A chain of config_scope arguments; when target_scope is given the chain ends exactly there."""
  if target_scope is None:
    target_scope = rand_scope(rng)
  chain = []
  r = rng.random()
  if r < 0.15:
    # noise first, then an explicit list replaces everything
    for _ in range(rng.randint(0, 2)):
      chain.append({'k': 'name', 'v': rng.choice(ALPHA)})
    chain.append({'k': 'list', 'v': list(target_scope)})
  elif r < 0.25:
    chain.append({'k': 'name', 'v': rng.choice(ALPHA)})
    chain.append({'k': 'clear', 'v': rng.choice([None, ''])})
    i = 0
    while i < len(target_scope):
      j = min(len(target_scope), i + rng.randint(1, 2))
      chain.append({'k': 'name', 'v': '/'.join(target_scope[i:j])})
      i = j
  else:
    i = 0
    while i < len(target_scope):
      j = min(len(target_scope), i + rng.randint(1, 2))
      chain.append({'k': 'name', 'v': '/'.join(target_scope[i:j])})
      i = j
  if w_invalid and rng.random() < w_invalid:
    chain.insert(rng.randint(0, len(chain)), rng.choice(
        [{'k': 'name', 'v': 'a//b'}, {'k': 'name', 'v': '1x'}, {'k': 'invalid', 'v': 42},
         {'k': 'list', 'v': ['a', 'b c']}, {'k': 'name', 'v': 'a/'}]))
  return chain


def caller_value(rng):
  """A value the caller supplies: now and then an object whose identity matters (ids 400-449 are never
  normalised after a deepcopy, so a copied caller value shows up as a different object)."""
  if rng.random() < 0.15:
    if rng.random() < 0.2:
      return {'o': 460 + rng.randrange(10)}   # an object that compares equal to anything, REQUIRED included
    return {'o': 400 + rng.randrange(50)}
  return gen_value(rng, 1)


def gen_call(rng, reg, enter, w_required=0.0, w_bad=0.05):
  sig, kind = reg['sig'], reg['_kind']
  pos, kwo = sig_names(sig, kind)
  args, kwargs = [], []
  still_positional = True
  n_po = max(0, sig.get('posonly', 0) - (0 if kind == 'fn' else 1))
  for i_nm, nm in enumerate(pos):
    r = rng.random()
    val = REQ if rng.random() < w_required else caller_value(rng)
    if i_nm < n_po and 0.4 <= r < 0.65:
      r = 0.9   # a positional-only parameter is never passed by keyword
    if still_positional and r < 0.4:
      args.append(val)
    elif r < 0.65:
      still_positional = False
      kwargs.append([nm, val])
    else:
      still_positional = False
  if still_positional and (sig['varargs'] or rng.random() < w_bad):
    for _ in range(rng.randint(0, 2)):
      args.append(REQ if rng.random() < w_required * 0.5 else caller_value(rng))
  for nm in kwo:
    if rng.random() < 0.35:
      kwargs.append([nm, REQ if rng.random() < w_required else caller_value(rng)])
  if sig['varkw'] or rng.random() < w_bad:
    for nm in rng.sample(['e1', 'e2', 'anyk'], rng.randint(0, 2)):   # 'anyk' is the **kwargs-only name bindings use
      kwargs.append([nm, REQ if rng.random() < w_required else caller_value(rng)])
  rng.shuffle(kwargs)
  op = {'op': 'call', 'sel': reg['_selector'], 'enter': enter, 'args': args, 'kwargs': kwargs,
        '_target': reg['obj']}
  if kind != 'fn':
    op['args'] = [{'o': 5000 + reg['obj']}] + args
    op['_selfname'] = sig['pos'][0][0]
  if reg['_api'] == 'configurable' and rng.random() < 0.2:
    op['_via'] = 'get_configurable'
  if rng.random() < 0.1:
    op['_left_by'] = [rng.choice(['zz', 'a', 'a/b']), rng.random() < 0.6]
  if len(enter) >= 2 and rng.random() < 0.3:
    op['_precreate'] = True
  if enter and rng.random() < 0.12:
    # inside the entered scopes, a scope entry that is rejected (and caught) must leave them intact
    op['_bad_enter'] = rng.choice(['not valid!', 'a b', '1x', 'a//b', '/a', 'a/', 42])
  return op


def spell(rng, sel):
  """A random (possibly abbreviated) spelling of a complete selector; may be ambiguous."""
  parts = sel.split('.')
  k = rng.randint(1, len(parts))
  return '.'.join(parts[-k:])


def gen_bind(rng, reg, scope, value=None, full_spelling=True):
  sig, kind = reg['sig'], reg['_kind']
  pos, kwo = sig_names(sig, kind)
  cand = pos + kwo + (['e1', 'e2', 'k9'] if sig['varkw'] else [])
  if reg['allow']:
    cand = [c for c in cand if c in reg['allow']]
  cand = [c for c in cand if c not in reg['deny']]
  if not cand:
    return None
  arg = rng.choice(cand)
  form = rng.choice(['tuple', 'tuple', 'list', 'str', 'text', 'block'])
  return {'op': 'bind', 'scope': '/'.join(scope), 'sel': reg['_selector'], 'arg': arg,
          'val': gen_value(rng, 0) if value is None else value, '_form': form, 'block': form == 'block'}


# ------------------------------------------------------------------ state histories (C11, C12, C20)

def gen_class_with_method(rng, obj0, module='m'):
  """A class registered with register/external_configurable whose method was registered first."""
  cname = rng.choice(['K', 'L'])
  mname = rng.choice(['meth', 'run', 'run' + cname, cname + 'x'])   # a method name may contain the class name
  msig = {'pos': [['self', None], ['y', None], ['x', {'v': 1}]], 'kwonly': [], 'varargs': False, 'varkw': False}
  mop = {'op': 'register', 'name': mname, 'nameValid': True, 'module': module, 'moduleValid': True, 'sig': msig,
         'allow': [], 'deny': [], 'listTypesOk': True, 'obj': obj0, 'method': False, 'methods': [],
         '_skip_impl': True, '_selector': f'{module}.{cname}.{mname}', '_kind': 'fn', '_api': 'method'}
  if rng.random() < 0.25:
    # a static method (`@staticmethod` over `@gin.register`): a method of its class like any other
    mop['sig'] = {'pos': [['y', None], ['x', {'v': 1}]], 'kwonly': [], 'varargs': False, 'varkw': False}
    mop['_static'] = True
  r = rng.random()
  if r < 0.25:     # the method's own allow/deny list stays in force after it moved under its class
    mop['deny'] = [rng.choice(['x', 'y'])]
  elif r < 0.4:
    mop['allow'] = [rng.choice(['x', 'y'])]
  cop = {'op': 'register', 'name': cname, 'nameValid': True, 'module': module, 'moduleValid': True,
         'sig': {'pos': [['self', None]], 'kwonly': [], 'varargs': False, 'varkw': False},
         'allow': [], 'deny': [], 'listTypesOk': True, 'obj': obj0 + 1, 'method': False,
         'methods': [f'{module}.{mname}'], '_method_ops': [mop], '_pymodule': module,
         '_inherited': rng.random() < 0.4,
         '_selector': f'{module}.{cname}', '_kind': 'init', '_api': rng.choice(['register', 'external'])}
  return [mop, cop]


def param_classes(reg):
  """name -> class of the parameter w.r.t. bindability."""
  sig, kind = reg['sig'], reg.get('_kind', 'fn')
  pos, kwo = sig_names(sig, kind)
  out = {}
  for n in pos + kwo:
    out[n] = 'valid'
  if not sig['varkw']:
    # a positional-only parameter cannot take a value by keyword, which is how Gin supplies one (D56)
    for n in pos[:max(0, sig.get('posonly', 0) - (0 if kind == 'fn' else 1))]:
      out[n] = 'unknown'
  if sig['varkw']:
    out['anyk'] = 'valid'
  else:
    out['nope'] = 'unknown'
  for n in list(out):
    if reg['allow'] and n not in reg['allow']:
      out[n] = 'unlisted' if out[n] == 'valid' else out[n]
    if reg['deny'] and n in reg['deny']:
      out[n] = 'denied' if out[n] == 'valid' else out[n]
  return out


def gen_bind_attempt(rng, regs, scopes, forms=('tuple', 'list', 'str', 'text', 'block')):
  reg = rng.choice(regs)
  sel = reg['_selector']
  r = rng.random()
  if r < 0.12:
    spelled = rng.choice(['zz', 'zz.f', sel + 'x', 'q.' + sel])
  elif r < 0.55:
    spelled = sel
  else:
    spelled = spell(rng, sel)
  cls = param_classes(reg)
  arg = rng.choice(list(cls)) if cls else 'nope'
  if rng.random() < 0.06:
    arg = rng.choice(['args', 'kw'])   # what the probes call their *args / **kwargs: never a parameter
  form = rng.choice(forms)
  return {'op': 'bind', 'scope': '/'.join(rng.choice(scopes)), 'sel': spelled, 'arg': arg,
          'val': gen_value(rng, 1), '_form': form, 'block': form == 'block', '_reg': reg['obj'],
          '_pclass': cls.get(arg, 'unknown')}


def gen_hook(rng, regs, scopes, w_raise=0.1, earlier=None):
  """A data-driven finalize hook.  With `earlier` (keyspecs returned by previous hooks) it sometimes
  re-targets one of those parameters under another spelling (conflict detection)."""
  if rng.random() < w_raise:
    return {'op': 'hook', 'ret': None, 'raises': True}
  if rng.random() < 0.12:
    return {'op': 'hook', 'ret': None, 'raises': False}
  ret, seen = [], set()
  for _ in range(rng.randint(1, 2)):
    if earlier and rng.random() < 0.35:
      ks0, reg = rng.choice(earlier)
      ks = {'scope': ks0['scope'], 'sel': spell(rng, reg['_selector']) if rng.random() < 0.7 else reg['_selector'],
            'arg': ks0['arg'], '_form': rng.choice(['str', 'tuple']), '_reg': reg['obj']}
      # two hooks updating one parameter conflict whether or not they agree on the value
      val = ks0['_val'] if ('_val' in ks0 and rng.random() < 0.5) else gen_value(rng, 1)
    else:
      b = gen_bind_attempt(rng, regs, scopes)
      if rng.random() < 0.85 and b['_pclass'] != 'valid':
        continue
      ks = {'scope': b['scope'], 'sel': b['sel'], 'arg': b['arg'], '_form': rng.choice(['str', 'tuple']),
            '_reg': b['_reg']}
      val = b['val']
    ident = (ks['_form'], ks['scope'], ks['sel'], ks['arg'])
    if ident in seen:
      continue
    seen.add(ident)
    ks['_val'] = val
    ret.append([ks, val])
  out = {'op': 'hook', 'ret': ret, 'raises': False}
  if rng.random() < 0.3:
    out['_mapping'] = rng.choice(['proxy', 'chain'])    # the bindings come back as a mapping that is not a dict
  return out


def hook_keyspecs(hook, regs):
  byobj = {r['obj']: r for r in regs}
  return [(ks, byobj[ks['_reg']]) for ks, _ in (hook['ret'] or []) if ks.get('_reg') in byobj]


def gen_late_register(rng, obj):
  """A registration attempted in the middle of a history (valid unless the config is locked)."""
  sig = gen_sig(rng, 'fn', max_params=2)
  name = 'late%d' % obj
  return {'op': 'register', 'name': name, 'nameValid': True, 'module': 'lm', 'moduleValid': True, 'sig': sig,
          'allow': [], 'deny': [], 'listTypesOk': True, 'obj': obj, 'method': False, 'methods': [],
          '_kind': 'fn', '_api': rng.choice(['configurable', 'register', 'external']), '_pymodule': 'lm',
          '_selector': 'lm.' + name}


def gen_history(rng, regs, n, scopes, depth=0, w=None, next_obj=None):
  """Ops over {bind, finalize, unlock(body, raises?), nested unlock, register, clear, hook, observe}."""
  w = w or {}
  next_obj = next_obj if next_obj is not None else [max(r['obj'] for r in regs) + 10]
  ops, earlier = [], []
  for _ in range(n):
    r = rng.random()
    if r < 0.30:
      b = gen_bind_attempt(rng, regs, scopes)
      if b['_pclass'] != 'valid' and rng.random() < 0.6:
        b = gen_bind_attempt(rng, regs, scopes)
      if w.get('special') and rng.random() < w['special']:
        # values the built-in finalize hooks look at: a parameter left at %gin.REQUIRED, a macro
        # (bound or not), a reference to a configurable
        rr = rng.random()
        if rr < 0.4:
          b['val'] = {'const': 'gin.REQUIRED'}
          if rng.random() < 0.5:   # the same value written as the reference `%name` stands for, selector partial or complete
            b['val']['_text'] = rng.choice(['@gin.REQUIRED/gin.constant()', '@gin.REQUIRED/constant()'])
        elif rr < 0.7:
          b['val'] = {'macro': rng.choice(['m1', 'm2'])}
        else:
          b['val'] = {'ref': [[], rng.choice(regs)['_selector'], False]}
        if rr >= 0.4 and rng.random() < 0.3:
          # ... sitting in a key of a dict (or of a dict inside a list) instead of being the value itself
          b['val'] = {'d': [[b['val'], 1]]} if rng.random() < 0.6 else {'l': [0, {'d': [[b['val'], {'s': 'v'}]]}]}
        if b['_form'] not in ('text', 'block'):
          b['_form'] = 'text'
          b['block'] = False
      ops.append(b)
      if w.get('special') and rng.random() < 0.15:
        ops.append({'op': 'bind', 'scope': rng.choice(['m1', 'm2']), 'sel': 'gin.macro', 'arg': 'value',
                    'val': rng.randint(1, 9), '_form': 'macro_text', 'block': False})
    elif r < 0.42:
      ops.append({'op': 'finalize'})
      if rng.random() < 0.4:   # finalize called while some config scope is active: that changes nothing
        ops[-1]['_enter'] = gen_enter(rng, rng.choice(scopes))
    elif r < 0.56 and depth < 2:
      body = gen_history(rng, regs, rng.randint(0, 4), scopes, depth + 1, w, next_obj)
      ops.append({'op': 'unlock', 'body': body, 'raises': rng.random() < 0.5, '_base': rng.random() < 0.4})
    elif r < 0.62:
      next_obj[0] += 1
      ops.append(gen_late_register(rng, next_obj[0]))
    elif r < 0.68 and depth == 0:
      ops.append({'op': 'clear', 'constants': rng.random() < 0.3})
    elif r < 0.76:
      h = gen_hook(rng, regs, scopes, w_raise=w.get('hook_raise', 0.15), earlier=earlier)
      earlier += hook_keyspecs(h, regs)
      ops.append(h)
    elif r < 0.81:
      ops.append({'op': 'interactive', 'on': rng.random() < 0.6})
    elif r < 0.93:
      ops.append({'op': 'locked'})
    else:
      ops.append({'op': 'config'})
  return ops
