from . import m2  # noqa
