def h(a=0):
  return ('h', a)


def shared(a=0):
  return ('shared-alt', a)


class Worker:
  """A class of the same name, with a method of the same name, lives in c19pkg.sub.m2."""

  def __init__(self, n=0):
    self.n = n

  def run(self, arg=0):
    return ('run-alt', self.n, arg)
