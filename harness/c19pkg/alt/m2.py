def h(a=0):
  return ('h', a)


def shared(a=0):
  return ('shared-alt', a)
