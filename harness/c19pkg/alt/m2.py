def h(a=0):
  return ('h', a)
