"""A sibling of m2 that has a function of the same name: an alias `m2` for this module spells `c19pkg.sub.m2.shared`."""


def shared(a=0):
  return ('shared-sub-m3', a)
