from c19pkg.m1 import f as f2  # noqa  (a second spelling of the same object)
from c19pkg.m1 import Cls as C2  # noqa


def g(a=0):
  return ('g', a)


class K:
  def __init__(self, r=0):
    self.r = r


def shared(a=0):
  return ('shared-sub', a)
