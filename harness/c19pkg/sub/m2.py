from c19pkg.m1 import f as f2  # noqa  (a second spelling of the same object)
from c19pkg.m1 import Cls as C2  # noqa


def g(a=0):
  return ('g', a)


class K:
  def __init__(self, r=0):
    self.r = r


def shared(a=0):
  return ('shared-sub', a)


class Worker:
  """A class of the same name, with a method of the same name, lives in c19pkg.alt.m2."""

  def __init__(self, n=0):
    self.n = n

  def run(self, arg=0):
    return ('run-sub', self.n, arg)
