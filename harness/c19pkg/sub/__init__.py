from . import m2, m3  # noqa
