def f(a=0, b=0):
  return ('f', a, b)


class Cls:
  def __init__(self, p=0, p2=0):
    self.p, self.p2 = p, p2

  def meth(self, k=0):
    return ('meth', self.p, k)

  def meth2(self, j=0):
    return ('meth2', self.p, j)

  class Inner:
    def __init__(self, q=0):
      self.q = q

    def imeth(self, t=0):
      return ('imeth', self.q, t)



class _Shape:
  """Not reachable by name (underscore): its method is reached through the subclass only."""

  def area(self, scale=0):
    return ('area', self.side, scale)


class Square(_Shape):
  def __init__(self, side=0):
    self.side = side

  def perimeter(self, unit=0):
    return ('perimeter', self.side, unit)


def _traced(fn):
  import functools

  @functools.wraps(fn)
  def wrapper(*args, **kwargs):
    return fn(*args, **kwargs)
  return wrapper


traced_f = _traced(f)     # a decorated variant of `f`: another object, with a configurable of its own
