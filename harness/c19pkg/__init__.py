"""Package tree for the C19 check (dynamic registration); packages import their submodules eagerly."""
from . import m1, sub, alt, tools  # noqa


def top_fn(x=0):
  return ('top_fn', x)
