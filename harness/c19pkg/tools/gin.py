"""A module whose name is the one name a dynamic-registration file may not bind."""


def tool(a=0):
  return ('tool', a)
