from . import gin  # noqa
